"""C04: aggregation. Spec: spec/Aggregate.tla (+ MC_Aggregate, Trace_Agg)."""
from __future__ import annotations

import json
import os
import re

import core
import tlc

PROPS = {"C04"}
MASKED = -1
ENTRIES = [1, 2, 3, 4, 9, 0, 7, MASKED]


def build_vec(v, rng, style):
    import numpy as np
    n = len(v)
    if any(x == MASKED for x in v) or style == "ma":
        a = np.ma.masked_all((n,), dtype="uint8")
        # junk under the mask: values that WOULD change the aggregate if they were read
        a.data[:] = [rng.choice([4, 9, 1, 3, 2, 200]) for _ in range(n)]
        for i, x in enumerate(v):
            if x != MASKED:
                a[i] = x
        return a
    # values that are no flags (0 and 7 in the abstract vectors) are written in spellings that a narrowing cast would turn
    # into flags: non-integral floats, integers congruent to a flag modulo 256
    if style == "f64":
        return np.array([rng.choice([3.5, 4.9, 0.0, 260.0]) if x == 0 else (rng.choice([7.0, 1.5, 9.25]) if x == 7 else x) for x in v],
                        dtype="float64")
    if style == "i64":
        return np.array([rng.choice([0, 260, -252]) if x == 0 else (rng.choice([7, 265, 513]) if x == 7 else x) for x in v], dtype="int64")
    return np.array(v, dtype="uint8")


def run_agg(vecs, via, rng, rollups=False):
    """rollups: the vectors are themselves roll-ups of earlier aggregations (CollectedResults whose function is
    qartod.aggregate): regrouping must not lose what only an earlier roll-up carries"""
    import numpy as np
    from ioos_qc import qartod
    from ioos_qc.results import CollectedResult
    arrs = [build_vec(v, rng, rng.choice(["u8", "u8", "ma", "f64", "i64"])) for v in vecs]
    before = [(np.ma.getmaskarray(a).tolist(), np.asarray(np.ma.getdata(a)).tolist()) for a in arrs]
    obs = {"exc": "", "out": [], "masked": 0, "same": True}
    try:
        if via == "compare":
            r = qartod.qartod_compare(arrs)
        else:
            # the same test on several streams and different tests on one stream: every result counts
            crs = [CollectedResult(stream_id="s%d" % (i // 2), package="qartod", test="t%d" % (i % 2), function=qartod.gross_range_test,
                                   results=a) for i, a in enumerate(arrs)]
            if len(arrs) >= 2 and rng.random() < 0.5:
                crs = [CollectedResult(stream_id="s%d" % i, package=["qartod", "argo", "axds"][i % 3], test="same_test",
                                       function=qartod.gross_range_test, results=a) for i, a in enumerate(arrs)]
            if rollups:
                marks = [rng.random() < 0.6 for _ in arrs]
                crs = [CollectedResult(stream_id="", package="qartod", test="rollup%d" % i, function=qartod.aggregate, results=a)
                       if m else c for i, (a, c, m) in enumerate(zip(arrs, crs, marks))]
            if via == "aggregate":
                r = qartod.aggregate(crs)
            else:
                from ioos_qc.stores import PandasStore
                st = PandasStore([])
                st.collected_results = crs
                st.compute_aggregate()
                r = st.collected_results[-1].results
        obs["masked"] = int(np.ma.getmaskarray(r).sum())
        obs["out"] = [int(x) for x in np.asarray(np.ma.getdata(r)).ravel().tolist()]
        obs["dtype"] = str(r.dtype)
    except Exception as e:  # noqa: BLE001
        obs["exc"] = type(e).__name__
    after = [(np.ma.getmaskarray(a).tolist(), np.asarray(np.ma.getdata(a)).tolist()) for a in arrs]
    obs["same"] = before == after
    return obs, arrs


def grouped_real(vecs, groups, rng):
    """aggregate sub-lists with the REAL code; returns intermediate vectors (as int lists)"""
    mids = []
    for g in groups:
        obs, _ = run_agg([vecs[j - 1] for j in g], "compare", rng)
        if obs["exc"]:
            return None
        mids.append(obs["out"])
    return mids


class Rec:
    def __init__(self, rng):
        self.events, self.rng, self.sid = [], rng, 0
        self.base_of = {}

    def session(self, vecs, derived):
        self.sid += 1
        via = self.rng.choice(["compare", "compare", "aggregate", "store"])
        obs, _ = run_agg(vecs, via, self.rng)
        bid = len(self.events) + 1
        self.events.append({"id": bid, "sid": self.sid, "vecs": vecs, "rel": {"kind": "base", "groups": []},
                            "via": via, "obs": obs})
        for rel in derived:
            if rel["kind"] == "group":
                vs2 = grouped_real(vecs, rel["groups"], self.rng)
                if vs2 is None:
                    continue
            else:
                vs2 = rel.pop("vecs")
            via2 = self.rng.choice(["compare", "aggregate", "store"])
            o2, _ = run_agg(vs2, via2, self.rng, rollups=(rel["kind"] == "group" and self.rng.random() < 0.6))
            eid = len(self.events) + 1
            self.base_of[eid] = bid
            self.events.append({"id": eid, "sid": self.sid, "vecs": vs2, "rel": rel, "via": via2, "obs": o2})


def derived_for(vecs, rng):
    k = len(vecs)
    out = []
    p = list(range(k))
    rng.shuffle(p)
    out.append({"kind": "perm", "groups": [], "vecs": [vecs[j] for j in p]})
    out.append({"kind": "dup", "groups": [], "vecs": vecs + [vecs[rng.randrange(k)] for _ in range(rng.randint(1, 2))]})
    cut = rng.randint(1, k)
    gs = [list(range(1, cut + 1))] + ([list(range(cut + 1, k + 1))] if cut < k else [])
    out.append({"kind": "group", "groups": gs})
    if k >= 2:
        out.append({"kind": "group", "groups": [[1, 2], list(range(2, k + 1))]})
    return out


def check(ctx):
    import qcexec  # noqa: F401  (imports ioos_qc from the tree under test and asserts the path)
    rec = Rec(ctx.rng)
    res = core.mc(ctx, "agg", "MC_Aggregate", {"MaxVecs": ctx.pick(3, 4), "MaxLen2Vecs": ctx.pick(2, 3)},
                  invariants=["InvAggSame", "InvAggWorst", "InvAggFlags", "InvAggTable"], init="MCAInit", nxt="MCANext",
                  dump=True)
    with open(res["dump_path"]) as f:
        blocks = re.split(r"^State \d+:\s*$", f.read(), flags=re.M)[1:]
    os.remove(res["dump_path"])
    idx = list(range(len(blocks)))
    ctx.rng.shuffle(idx)
    budget, n = ctx.pick(12000, 150000), 0
    for i in idx:
        if n >= budget:
            break
        st = {}
        for part in re.split(r"^/\\ ", blocks[i].strip(), flags=re.M):
            if part.strip():
                name, _, val = part.strip().partition(" = ")
                st[name.strip()] = tlc.parse_value(val)
        if not st["avecs"]:
            continue
        if st["arel"]["kind"] == "base":
            rec.session(st["avecs"], [])
            n += 1
        else:
            rel = dict(st["arel"])
            if rel["kind"] != "group":
                rel["vecs"] = st["acur"]
            rec.session(st["avecs"], [rel])
            n += 2
    ctx.cov["dump_states_total"] = len(blocks)
    ctx.cov["events_from_model_states"] = len(rec.events)
    ctx.cov["exhaustive"] = n < budget
    # random larger inputs
    for _ in range(ctx.pick(400, 6000)):
        k, ln = ctx.rng.randint(1, 6), ctx.rng.choice([0, 1, 2, 5, 8, 20])
        pool = ctx.rng.choice([ENTRIES, [1, 2, 3, 4, 9], [1, 1, 1, 3, MASKED], [2, 9, MASKED, MASKED]])
        vecs = [[ctx.rng.choice(pool) for _ in range(ln)] for _ in range(k)]
        rec.session(vecs, derived_for(vecs, ctx.rng))
    rejects = core.validate_parallel(ctx, rec.events, "Trace_Agg", "agg")
    evs = {e["id"]: e for e in rec.events}
    owned = [(evs[i], cl) for i, cl in rejects]
    # purity of the inputs is part of C04's observable contract only through C01-like reading; report it too
    for e in rec.events:
        if not e["obs"]["same"]:
            owned.append((e, "agg_inputs_modified"))
    for e in rec.events[:: max(1, len(rec.events) // 5)][:5]:
        ctx.samples.append({"vecs": e["vecs"], "rel": e["rel"], "via": e["via"], "observed": e["obs"]["out"]})
    ctx.cov["distinct_nontrivial"] = len({json.dumps(e["vecs"]) for e in rec.events if e["vecs"] and e["vecs"][0]})
    # binding self-test
    import tv
    cand = [e for e in rec.events if e["obs"]["exc"] == "" and e["obs"]["out"] and e["rel"]["kind"] == "base"]
    if cand:
        e = json.loads(json.dumps(cand[0]))
        e["obs"]["out"][0] = 1 if e["obs"]["out"][0] != 1 else 4
        bad, _ = tv.validate([e], "Trace_Agg", "C04_self")
        if not any(cl == "agg_value" for _, cl in bad):
            raise tlc.MachineryError("binding self-test failed for Trace_Agg")
        ctx.cov["binding_selftest"] = "corrupted aggregate value rejected by Trace_Agg"

    def sig(e, cl):
        return "%s|via=%s|rel=%s|k=%d" % (cl, e["via"], e["rel"]["kind"], len(e["vecs"]))

    def payload(v):
        e = v["event"]
        steps = [evs[rec.base_of[e["id"]]]] if e["id"] in rec.base_of else []
        return {"kind": "agg", "clause": v["clause"], "signature": v["sig"], "count": v["count"], "steps": steps + [e]}

    core.report(ctx, owned, sig, payload, lambda e, cl: json.dumps({"vecs": e["vecs"], "obs": e["obs"]})[:300])
    return core.finish(ctx, "model_checking",
                       "cases are real calls of qartod_compare / aggregate / PandasStore.compute_aggregate on (a) every state of "
                       "MC_Aggregate (all entry multisets at one position for up to MaxVecs vectors, plus permuted / duplicated / "
                       "grouped lists) and (b) random vector lists; masked entries are backed by junk flag values; verdicts by Trace_Agg")
