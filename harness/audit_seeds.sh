#!/bin/sh
# audit_seeds.sh [ids...] : runs the quick check of the target property against every seeded change (on a scratch
# worktree, own scratch and evidence directories) and writes /verif/seeded/AUDIT.txt. ~1 minute per seeded change.
cd /verif
ids=${@:-$(ls seeded | grep '^S-')}
export VERIF_WORKDIR=/verif/.work/audit VERIF_EVIDENCE_DIR=/verif/.work/audit_evidence
mkdir -p $VERIF_WORKDIR $VERIF_EVIDENCE_DIR
out=/verif/seeded/AUDIT.txt
: > $out.tmp
for id in $ids; do
  prop=$(python3 -c "import json;print(json.load(open('/verif/seeded/$id/meta.json'))['breaks_property'])")
  wt=/tmp/wt_audit_$$
  git -C /repo worktree add -q --detach $wt HEAD || exit 2
  if git -C $wt apply /verif/seeded/$id/patch.diff 2>/dev/null; then
    IOOS_QC_TREE=$wt ./vcheck $prop --tier quick > $VERIF_WORKDIR/audit_$id.log 2>&1
    rc=$?
    echo "$id $prop rc=$rc violations=$(grep -c '^VIOLATION' $VERIF_WORKDIR/audit_$id.log)" | tee -a $out.tmp
  else
    echo "$id $prop patch-does-not-apply" | tee -a $out.tmp
  fi
  git -C /repo worktree remove --force $wt >/dev/null 2>&1; git -C /repo worktree prune
done
mv $out.tmp $out
