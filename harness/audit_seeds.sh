#!/bin/sh
# audit_seeds.sh [-j N] [ids...] : runs the quick check of the target property against every seeded change (each on its
# own scratch worktree with its own scratch and evidence directories, N at a time; default 4) and writes
# /verif/seeded/AUDIT.txt (or $AUDIT_OUT, for a partial pass). ~1-1.5 minutes per seeded change and job.
cd /verif
jobs=4
if [ "$1" = "-j" ]; then jobs=$2; shift 2; fi
ids=${@:-$(ls seeded | grep '^S-')}
mkdir -p /verif/.work/audit
out=${AUDIT_OUT:-/verif/seeded/AUDIT.txt}
one() {
  id=$1
  prop=$(python3 -c "import json;print(json.load(open('/verif/seeded/$id/meta.json'))['breaks_property'])")
  wt=/tmp/wt_audit_$id
  git -C /repo worktree add -q --detach $wt HEAD || { echo "$id $prop worktree-failed"; return; }
  if git -C $wt apply /verif/seeded/$id/patch.diff 2>/dev/null; then
    target=$(python3 -c "import json;print(json.load(open('/verif/seeded/$id/meta.json')).get('target_check',''))")
    case "$target" in C[0-9][0-9]) prop=$target; target="";; esac      # reported by another property's check than the one aimed at
    if [ "$target" = "none" ]; then
      echo "$id $prop not-reported-by-design (see meta.json)"
    elif [ "$target" = "extra" ]; then
      # outside the statement of its property: the growth checks are what reports it
      VERIF_WORKDIR=/verif/.work/audit/w_$id VERIF_EVIDENCE_DIR=/verif/.work/audit/e_$id IOOS_QC_TREE=$wt \
        ./vcheck extra > /verif/.work/audit/audit_$id.log 2>&1
      rc=$?
      echo "$id extra($prop) rc=$rc violations=$(grep -c '^EXTRA-REJECT' /verif/.work/audit/audit_$id.log)"
    else
      VERIF_WORKDIR=/verif/.work/audit/w_$id VERIF_EVIDENCE_DIR=/verif/.work/audit/e_$id IOOS_QC_TREE=$wt \
        ./vcheck $prop --tier quick > /verif/.work/audit/audit_$id.log 2>&1
      rc=$?
      echo "$id $prop rc=$rc violations=$(grep -c '^VIOLATION' /verif/.work/audit/audit_$id.log)"
    fi
  else
    echo "$id $prop patch-does-not-apply"
  fi
  git -C /repo worktree remove --force $wt >/dev/null 2>&1
  rm -rf /verif/.work/audit/w_$id /verif/.work/audit/e_$id
}
: > $out.tmp
n=0
for id in $ids; do
  one $id >> $out.tmp &
  n=$((n + 1))
  if [ $((n % jobs)) -eq 0 ]; then wait; fi
done
wait
git -C /repo worktree prune
sort $out.tmp > $out; rm -f $out.tmp
grep -c "rc=1" $out | sed 's/^/reported: /'
grep -v "rc=1" $out
