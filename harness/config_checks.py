"""C07: configuration loading. Spec: spec/ConfigLoad.tla (+ MC_ConfigLoad, Trace_Config)."""
from __future__ import annotations

import datetime as _dt
import io
import json
import os
import re
from collections import OrderedDict
from pathlib import Path

import core
import tlc

PROPS = {"C07"}
NA = -999999999
TBASE = 1577836800
LAYOUTS = ["contexts", "streams", "bare_streams", "bare_modules"]
CARRIERS = ["dict", "odict", "yaml_str", "json_str", "yaml_io", "json_io", "yaml_path_str", "yaml_path",
            "json_path_str", "json_path", "xr_global", "xr_vars", "nc_path", "xr_global_dict"]
# already-parsed objects (Config's docstring: "list of Call objects"; extract_calls: objects with a 'calls' attribute)
OBJECT_CARRIERS = ["call_list", "ctx_objs", "mixed_list", "config_obj"]
CARRIERS += OBJECT_CARRIERS
KNOWN = {("qartod", t) for t in ("gross_range_test", "spike_test", "location_test", "climatology_test", "rate_of_change_test",
                                 "flat_line_test", "attenuated_signal_test", "density_inversion_test", "aggregate")} | \
        {("argo", "pressure_increasing_test"), ("argo", "speed_test"), ("axds", "valid_range_test")}

PARAMS = {
    "gross_full": {"suspect_span": [1, 11], "fail_span": [0, 12]},
    "spike_scalar": {"suspect_threshold": 1.5, "fail_threshold": 3, "method": "average"},
    "clim_nested": {"config": [{"vspan": [10, 13], "tspan": [0, 2], "period": "quarter"},
                               {"vspan": [11, 15.5], "tspan": [3, 4], "period": "quarter", "zspan": [0, 10]}]},
    "empty": {},
    "null": None,
    "valid_mixed": {"valid_span": [1, 11], "start_inclusive": True, "end_inclusive": False},
    "roc_scalar": {"threshold": 0.25},
    "flat_ints": {"suspect_threshold": 3600, "fail_threshold": 7200, "tolerance": 0.01},
    "loc_bbox": {"bbox": [-80, 40, -70, 60]},
    # values that a text format may be tempted to coerce: date-like and boolean-like strings, exponent notation
    "clim_dates": {"config": [{"vspan": [1.5, 2], "tspan": ["2020-01-01", "2020-02-01T12:00:00"]}]},
    "words": {"method": "no", "suspect_threshold": 1e3, "fail_threshold": 2.5e-3},
}
POLY2 = {"type": "Polygon", "coordinates": [[[-60.0, 30.0], [-58.0, 30.0], [-58.0, 32.0], [-60.0, 30.0]]]}
POLY = {"type": "Polygon", "coordinates": [[[-72.0, 41.0], [-70.0, 41.0], [-70.0, 43.0], [-72.0, 43.0], [-72.0, 41.0]]]}


def expressible(cfg, layout, carrier):
    c0 = cfg[0]
    bare = c0["win"] == [NA, NA] and c0["region"] == "none"
    ok = {"contexts": True, "streams": len(cfg) == 1, "bare_streams": len(cfg) == 1 and bare,
          "bare_modules": len(cfg) == 1 and bare and len(c0["streams"]) == 1}[layout]
    if carrier == "xr_vars" and layout != "bare_streams":
        ok = False
    if layout == "bare_streams" and carrier != "xr_vars" and ok and any(s["id"] in ("qartod", "argo", "axds") for s in c0["streams"]):
        # only its depth tells such a mapping from a module mapping: some test must carry parameters
        ok = any(e["params"] not in ("empty", "null") for s in c0["streams"] for e in s["entries"])
    if carrier in OBJECT_CARRIERS:
        known = any((e["module"], e["test"]) in KNOWN for c in cfg for s in c["streams"] for e in s["entries"])
        ok = ok and layout == "contexts" and known and (carrier != "mixed_list" or len(cfg) >= 2)
    return ok and len(cfg) >= 1


def bound(v, form):
    import pandas as pd
    ts = pd.Timestamp(TBASE + v, unit="s")
    if form == "str":
        return ts.isoformat()
    if form == "datetime":
        return ts.to_pydatetime()
    return ts


def ctx_dict(c, wform):
    d = OrderedDict()
    w = OrderedDict()
    if c["win"][0] != NA:
        w["starting"] = bound(c["win"][0], wform)
    if c["win"][1] != NA:
        w["ending"] = bound(c["win"][1], wform)
    if w:
        d["window"] = w
    if c["region"] == "geom":
        d["region"] = {"type": "Feature", "geometry": POLY}
    elif c["region"] == "feat":
        d["region"] = {"type": "FeatureCollection", "features": [{"type": "Feature", "geometry": POLY, "properties": {}}]}
    elif c["region"] == "feat2":
        d["region"] = {"type": "FeatureCollection", "features": [{"type": "Feature", "geometry": POLY, "properties": {}},
                                                                 {"type": "Feature", "geometry": POLY2, "properties": {"n": 2}}]}
    d["streams"] = streams_dict(c)
    return d


def streams_dict(c):
    out = OrderedDict()
    for s in c["streams"]:
        sd = out.setdefault(s["id"], OrderedDict())
        for e in s["entries"]:
            p = PARAMS[e["params"]]
            sd.setdefault(e["module"], OrderedDict())[e["test"]] = json.loads(json.dumps(p)) if p is not None else None
    return out


def layout_dict(cfg, layout, wform):
    if layout == "contexts":
        return OrderedDict(contexts=[ctx_dict(c, wform) for c in cfg])
    if layout == "streams":
        return ctx_dict(cfg[0], wform)
    if layout == "bare_streams":
        return streams_dict(cfg[0])
    return list(streams_dict(cfg[0]).values())[0]


def plain(o):
    """OrderedDict -> dict recursively, datetimes kept"""
    if isinstance(o, dict):
        return {k: plain(v) for k, v in o.items()}
    if isinstance(o, list):
        return [plain(v) for v in o]
    return o


def deep_odict(o):
    if isinstance(o, dict):
        return OrderedDict((k, deep_odict(v)) for k, v in o.items())
    if isinstance(o, list):
        return [deep_odict(v) for v in o]
    return o


def to_yaml(d):
    from ruamel.yaml import YAML
    y = YAML(typ="safe")
    y.default_flow_style = False
    buf = io.StringIO()
    y.dump(plain(d), buf)
    return buf.getvalue()


def make_source(cfg, layout, carrier, wd, n):
    """-> source object for Config(...); the file carriers rewrite one of two paths per kind (a configuration file that is
    edited and loaded again within one process must give the edited configuration)"""
    import numpy as np
    import xarray as xr
    textual = carrier not in ("dict", "odict")
    textual = textual and carrier != "xr_global_dict"
    wform = "str" if (textual and "json" in carrier or carrier in ("xr_global", "nc_path", "xr_vars")) else \
        ("datetime" if textual else ["str", "datetime", "timestamp"][n % 3])
    d = layout_dict(cfg, layout, wform)
    if carrier == "dict":
        return plain(d)
    if carrier == "odict":
        return deep_odict(d)              # OrderedDicts all the way down (they are handed on as they are, not copied)
    if carrier in OBJECT_CARRIERS:
        from ioos_qc.config import Config, ContextConfig
        ctxs = [ContextConfig(deep_odict(c) if n % 2 else plain(c)) for c in d["contexts"]]
        if carrier == "config_obj":
            return Config(plain(d))
        if carrier == "ctx_objs":
            return ctxs if n % 2 else tuple(ctxs)
        if carrier == "call_list":
            return [c for cc in ctxs for c in cc.calls]
        first = [cc for cc in ctxs if cc.calls][0]          # its calls go in bare, the other contexts as objects
        lst = list(first.calls) + [cc for cc in ctxs if cc is not first]
        if n % 3 == 1:
            lst.reverse()
        elif n % 3 == 2:
            lst = lst[1:] + lst[:1]
        return lst
    if carrier == "yaml_str":
        return to_yaml(d)
    if carrier == "json_str":
        return json.dumps(d)
    if carrier == "yaml_io":
        return io.StringIO(to_yaml(d))
    if carrier == "json_io":
        return io.StringIO(json.dumps(d))
    if carrier in ("yaml_path_str", "yaml_path"):
        p = os.path.join(wd, "c%d.yaml" % (n % 2))
        with open(p, "w") as f:
            f.write(to_yaml(d))
        return p if carrier == "yaml_path_str" else Path(p)
    if carrier in ("json_path_str", "json_path"):
        p = os.path.join(wd, "c%d.json" % (n % 2))
        with open(p, "w") as f:
            json.dump(d, f)
        return p if carrier == "json_path_str" else Path(p)
    if carrier == "xr_global_dict":
        # an in-memory Dataset may hold the parsed mapping itself as its global attribute
        return xr.Dataset({"a": (("time",), np.arange(3.0))}, attrs={"ioos_qc_config": deep_odict(d) if n % 2 else plain(d)})
    if carrier in ("xr_global", "nc_path"):
        ds = xr.Dataset({"a": (("time",), np.arange(3.0))}, attrs={"ioos_qc_config": json.dumps(d)})
        if carrier == "xr_global":
            return ds
        p = os.path.join(wd, "c%d.nc" % (n % 2))
        ds.to_netcdf(p, engine="scipy", format="NETCDF3_64BIT")
        return p
    if carrier == "xr_vars":
        dv = {}
        k = 0
        for s in cfg[0]["streams"]:
            for e in s["entries"]:
                p = PARAMS[e["params"]]
                dv["qc%d" % k] = (("time",), np.zeros(3), {"ioos_qc_module": e["module"], "ioos_qc_test": e["test"],
                                                           "ioos_qc_target": s["id"],
                                                           "ioos_qc_config": json.dumps(p if p is not None else {})})
                k += 1
        return xr.Dataset(dv)
    raise KeyError(carrier)


def norm_kwargs(kw):
    return json.loads(json.dumps(kw, default=str))


def project_calls(calls):
    import pandas as pd
    from shapely.geometry import GeometryCollection, shape
    poly_wkt = GeometryCollection([shape(POLY)]).wkt
    poly2_wkt = GeometryCollection([shape(POLY), shape(POLY2)]).wkt
    out = []
    for c in calls:
        kw = norm_kwargs(dict(c.kwargs))
        pid = "other"
        for k, v in PARAMS.items():
            if v is not None and norm_kwargs(v) == kw:
                pid = k
                break
        w = []
        for b in (c.window.starting, c.window.ending):
            if b is None:
                w.append(NA)
            else:
                w.append(int(pd.Timestamp(b).value // 10**9) - TBASE)
        reg = "none" if c.region is None else ("polyA" if c.region.wkt == poly_wkt else
                                                ("polyAB" if c.region.wkt == poly2_wkt else "other"))
        out.append({"stream": c.stream_id, "module": c.module, "test": c.method, "params": pid, "win": w, "region": reg})
    return out


def rebuild(cfg_obj):
    ctxs = []
    for context, calls in cfg_obj.contexts.items():
        d = {"window": context.window, "streams": OrderedDict()}
        if context.region is not None:
            d["region"] = context.region
        for c in calls:
            d["streams"].setdefault(c.stream_id, OrderedDict()).setdefault(c.module, OrderedDict()).update(c.config()[c.module])
        ctxs.append(d)
    return {"contexts": ctxs}


def load_event(cfg, layout, carrier, wd, n):
    import logging
    logging.disable(logging.CRITICAL)
    from ioos_qc.config import Config
    e = {"ev": "load", "cfg": cfg, "layout": layout, "carrier": carrier, "exc": "", "calls": [], "ncalls": 0,
         "rt": {"exc": "", "calls": []}, "again": {"done": False, "exc": "", "calls": [], "ncalls": 0}, "ndistinct": 0}
    try:
        src = make_source(cfg, layout, carrier, wd, n)
    except Exception as ex:  # noqa: BLE001
        if carrier in OBJECT_CARRIERS:
            # these carriers are built with the library's own constructors (ContextConfig, Config): a failure there is
            # a failure of the load, not of the harness
            e["exc"] = "building the %s: %s" % (carrier, type(ex).__name__)
            return e
        raise tlc.MachineryError("cannot serialise %r/%r: %r" % (layout, carrier, ex))
    try:
        c = Config(src)
        e["calls"] = project_calls(c.calls)
        e["ncalls"] = len(c.calls)
        # Call identity (__eq__; hashing is not used: a call whose parameters hold a list is not hashable)
        reps = []
        for x in c.calls:
            if not any(x == y for y in reps):
                reps.append(x)
        e["ndistinct"] = len(reps)
    except Exception as ex:  # noqa: BLE001
        e["exc"] = type(ex).__name__
        return e
    if not carrier.endswith("_io"):          # a StringIO is exhausted by the first load
        e["again"]["done"] = True
        try:
            ca = Config(src)
            e["again"]["calls"] = project_calls(ca.calls)
            e["again"]["ncalls"] = len(ca.calls)
        except Exception as ex:  # noqa: BLE001
            e["again"]["exc"] = type(ex).__name__
    try:
        if c.calls:
            c2 = Config(rebuild(c))
            e["rt"]["calls"] = project_calls(c2.calls)
    except Exception as ex:  # noqa: BLE001
        e["rt"]["exc"] = type(ex).__name__
    return e


def rand_cfg(r):
    known = [("qartod", "gross_range_test", "gross_full"), ("qartod", "spike_test", "spike_scalar"),
             ("qartod", "climatology_test", "clim_nested"), ("qartod", "location_test", "empty"),
             ("qartod", "location_test", "loc_bbox"), ("qartod", "rate_of_change_test", "roc_scalar"),
             ("qartod", "flat_line_test", "flat_ints"), ("qartod", "aggregate", "null"),
             ("argo", "pressure_increasing_test", "null"), ("argo", "pressure_increasing_test", "empty"),
             ("axds", "valid_range_test", "valid_mixed"), ("qartod", "climatology_test", "clim_dates"),
             ("qartod", "spike_test", "words")]
    unknown = [("not_a_module", "some_test", "empty"), ("qartod", "not_a_test", "gross_full"), ("argo", "nope", "null")]
    nctx = r.choice([1, 1, 1, 2, 3])
    cfg = []
    seen_ctx = []
    for k in range(nctx):
        streams = []
        for sid in r.sample(["a", "b.c", "temp", "_x", "argo"], r.choice([1, 1, 2, 3])):
            ents, seen = [], set()
            for _ in range(r.choice([1, 1, 2, 3, 4])):
                m, t, p = r.choice(known) if r.random() < 0.8 else r.choice(unknown)
                if (m, t) in seen:
                    continue
                seen.add((m, t))
                ents.append({"module": m, "test": t, "params": p})
            streams.append({"id": sid, "entries": ents})
        if nctx == 1 and r.random() < 0.5:
            win, region = [NA, NA], "none"
        else:
            win = r.choice([[NA, NA], [k * 86400, (k + 1) * 86400], [NA, (k + 1) * 86400], [k * 86400 + 5, NA]])
            region = r.choice(["none", "none", "geom", "feat", "feat2"])
        # two contexts with the same window and the same region ARE one context (Context equality); a rebuilt nested
        # mapping could then not hold the same stream / module / test twice, so keep the contexts distinguishable
        key = (tuple(win), "none" if region == "none" else ("AB" if region == "feat2" else "A"))
        if any(k2 == key for k2 in seen_ctx):
            win = [k * 86400 + 7, (k + 1) * 86400 + 7]
            key = (tuple(win), key[1])
        seen_ctx.append(key)
        cfg.append({"win": win, "region": region, "streams": streams})
    if len(cfg) < 3 and r.random() < 0.25:
        # a twin of the first context that differs from it in the region only: its calls are other calls
        c0 = cfg[0]
        other = {"none": "geom", "geom": "feat2", "feat": "feat2", "feat2": "none"}[c0["region"]]
        k0 = (tuple(c0["win"]), "none" if other == "none" else ("AB" if other == "feat2" else "A"))
        if k0 not in seen_ctx:
            cfg.append({"win": list(c0["win"]), "region": other, "streams": json.loads(json.dumps(c0["streams"]))})
    return cfg


def check(ctx):
    import qcexec  # noqa: F401
    big = not ctx.quick
    core.mc(ctx, "config", "MC_ConfigLoad", {"Big": big}, invariants=["InvSameCalls", "InvUnknownIgnored", "InvCount"],
            init="MCCInit", nxt="MCCNext")
    # the abstract configurations of the model: dump the initial states only
    wdm = tlc.workdir("mc_C07_init")
    cfgp = os.path.join(wdm, "init.cfg")
    with open(cfgp, "w") as f:
        f.write("INIT MCCInit\nNEXT MCCStutter\nCONSTANTS\n  Big = %s\nCHECK_DEADLOCK FALSE\n" % ("TRUE" if big else "FALSE"))
    res = tlc.run_tlc("MC_ConfigLoad", cfg=cfgp, workers=4, extra=["-dump", os.path.join(wdm, "init")], tag="C07_init")
    tlc.require_clean(res, "MC_ConfigLoad init dump")
    with open(os.path.join(wdm, "init.dump")) as f:
        blocks = re.split(r"^State \d+:\s*$", f.read(), flags=re.M)[1:]
    cfgs = []
    for b in blocks:
        m = re.search(r"/\\ cfgv = (.*?)(?=^/\\ |\Z)", b, flags=re.S | re.M)
        cfgs.append(tlc.parse_value(m.group(1)))
    ctx.rng.shuffle(cfgs)
    ctx.cov["model_configurations_total"] = len(cfgs)
    wd = tlc.workdir("cfg_C07")
    events = []
    n = 0
    n_model = ctx.pick(350, min(len(cfgs), 3000))
    cases = cfgs[:n_model] + [rand_cfg(ctx.rng) for _ in range(ctx.pick(150, 2500))]
    ctx.cov["model_configurations_replayed"] = min(n_model, len(cfgs))
    ctx.cov["exhaustive"] = n_model >= len(cfgs)
    for ci, cfg in enumerate(cases):
        combos = [(la, ca) for la in LAYOUTS for ca in CARRIERS if expressible(cfg, la, ca)]
        if ctx.quick:
            # all layouts every time; carriers round-robin so that each is visited equally often
            picked = []
            for la in LAYOUTS:
                cs = [c for (l2, c) in combos if l2 == la]
                if cs:
                    picked += [(la, cs[(ci + j) % len(cs)]) for j in range(3)]
            combos = sorted(set(picked))
        for la, ca in combos:
            e = load_event(cfg, la, ca, wd, n)
            n += 1
            e["id"] = len(events) + 1
            e["cid"] = ci
            events.append(e)
    rejects = core.validate_parallel(ctx, events, "Trace_Config", "config", session_key="cid", chunk=2500)
    by = {e["id"]: e for e in events}
    owned = [(by[i], cl) for i, cl in rejects]
    for e in events[:: max(1, len(events) // 6)][:6]:
        ctx.samples.append({"cfg": e["cfg"], "layout": e["layout"], "carrier": e["carrier"], "calls": e["calls"][:3]})
    ctx.cov["distinct_nontrivial"] = len({json.dumps(e["cfg"], sort_keys=True) for e in events})
    ctx.cov["spellings_loaded"] = len(events)
    import tv
    okev = [e for e in events if e["calls"] and e["id"] not in {i for i, _ in rejects}]
    if okev:
        e = json.loads(json.dumps(okev[0]))
        e["id"] = 1
        e["calls"][0]["params"] = "other"
        bad, _ = tv.validate([e], "Trace_Config", "C07_self")
        if not any(cl == "c07_calls" for _, cl in bad):
            raise tlc.MachineryError("binding self-test failed for Trace_Config")
        ctx.cov["binding_selftest"] = "a load event with one corrupted kwargs projection is rejected (c07_calls)"

    def sig(e, cl):
        c0 = e["cfg"][0]
        shapes = sorted({x["params"] for c in e["cfg"] for s in c["streams"] for x in s["entries"]})
        return "%s|%s|%s|exc=%s|nctx=%d|params=%s" % (cl, e["layout"], e["carrier"], e["exc"], len(e["cfg"]), ",".join(shapes)[:60])

    core.report(ctx, owned, sig, lambda v: {"kind": "config", "clause": v["clause"], "signature": v["sig"], "count": v["count"],
                                            "event": v["event"]},
                lambda e, cl: json.dumps({k: e[k] for k in ("cfg", "layout", "carrier", "exc", "calls")})[:700])
    return core.finish(ctx, "model_checking",
                       "cases are real Config(source) loads: every abstract configuration of MC_ConfigLoad (1..2 contexts x 1..2 "
                       "streams x known tests with scalar / list / nested / empty / null parameters x unknown module and test names, "
                       "windows, GeoJSON regions in both forms) serialised in every layout x carrier that can express it, plus "
                       "seeded random configurations; the projected calls are compared with ConfigLoad!Calls by TLC (Trace_Config), "
                       "including the Call.config() round trip")
