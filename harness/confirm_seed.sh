#!/bin/sh
# confirm_seed.sh <worktree> <patch> <demo> : confirms a seeded change independently of the checks:
# demo passes on the clean tree, fails with the patch, and the repository's tests still pass with the patch.
wt="$1"; patch="$2"; demo="$3"
git -C "$wt" checkout -q -- . || exit 2
PYTHONPATH="$wt" /venv/bin/python "$demo" > /dev/null 2>&1; clean=$?
git -C "$wt" apply "$patch" || { echo "patch does not apply"; exit 2; }
PYTHONPATH="$wt" /venv/bin/python "$demo" > /dev/null 2>&1; mutated=$?
tests=$(cd "$wt" && PYTHONPATH="$wt" /venv/bin/python -m pytest -q -p no:cacheprovider tests/test_qartod.py tests/test_argo.py tests/test_axds.py tests/test_streams.py tests/test_config.py tests/test_config_deprecated.py tests/test_utils.py tests/test_performance.py 2>&1 | tail -1)
git -C "$wt" checkout -q -- .
echo "demo clean=$clean mutated=$mutated tests: $tests"
