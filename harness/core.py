"""Shared machinery of the checks: context, TLC model-checking stage, parallel trace validation,
ownership of rejected clauses, known findings, replay files, evidence."""
from __future__ import annotations

import concurrent.futures as cf
import json
import os
import random
import shutil
import sys
import time

import tlc

VERIF = tlc.VERIF
# VERIF_EVIDENCE_DIR: used only by the seed audit, so that runs against seeded changes never touch /verif/evidence
EVID = os.environ.get("VERIF_EVIDENCE_DIR") or os.path.join(VERIF, "evidence")
KF_FILE = os.path.join(VERIF, "known_findings.jsonl")
NCPU = min(16, os.cpu_count() or 4)


class Ctx:
    def __init__(self, prop, tier, seed):
        self.prop, self.tier, self.seed = prop, tier, seed
        self.t0 = time.time()
        self.quick = tier == "quick"
        self.states = 0
        self.transitions = 0
        self.traces = 0           # events/executions of the real code validated against the spec
        self.samples = []
        self.cov = {}             # free-form coverage details
        self.violations = []      # dicts
        self.known = {}           # finding id -> count
        self.assumptions = []
        self.mc_runs = []
        self.other = {}           # rejected clauses owned by other properties (informational)
        self.rng = random.Random(seed)
        self.replay_dir = os.path.join(EVID, "replay", prop)
        shutil.rmtree(self.replay_dir, ignore_errors=True)

    def pick(self, quick, thorough):
        return quick if self.quick else thorough

    def log(self, *a):
        print("[%s %6.1fs]" % (self.prop, time.time() - self.t0), *a, flush=True)


# --------------------------------------------------------------------------------------------- model checking
def tla_const(v):
    if isinstance(v, bool):
        return "TRUE" if v else "FALSE"
    if isinstance(v, int):
        return str(v)
    if isinstance(v, str):
        return '"%s"' % v
    if isinstance(v, (list, tuple, set, frozenset)):
        return "{" + ", ".join(tla_const(x) for x in sorted(v)) + "}"
    raise TypeError(v)


def mc(ctx, name, module, constants, invariants=(), init="MCInit", nxt="MCNext", dump=False, workers=NCPU,
       timeout=3000, properties=(), constraint=None, coverage=False, simulate=None, extra=(), deadlock=False):
    """Exhaustive TLC run of a bounded instance. Invariant violations are machinery errors here: the
    spec modules state the properties, so a violated invariant means the rules contradict each other
    (a bug in the spec), not a defect of ioos_qc."""
    wd = tlc.workdir("mc_%s_%s" % (ctx.prop, name))
    cfg = os.path.join(wd, name + ".cfg")
    with open(cfg, "w") as f:
        f.write("INIT %s\nNEXT %s\n" % (init, nxt))
        if constants:
            f.write("CONSTANTS\n")
            for k, v in constants.items():
                f.write("  %s = %s\n" % (k, tla_const(v)))
        for inv in invariants:
            f.write("INVARIANT %s\n" % inv)
        for p in properties:
            f.write("PROPERTY %s\n" % p)
        if constraint:
            f.write("CONSTRAINT %s\n" % constraint)
        f.write("CHECK_DEADLOCK %s\n" % ("TRUE" if deadlock else "FALSE"))
    ex = list(extra)
    dump_path = None
    if dump:
        dump_path = os.path.join(wd, name)
        ex += ["-dump", dump_path]
        dump_path += ".dump"
    if coverage:
        ex += ["-coverage", "1"]
    if simulate:
        ex += ["-simulate", simulate]
    res = tlc.run_tlc(module, cfg=cfg, workers=workers, extra=ex, timeout=timeout, tag="%s_%s" % (ctx.prop, name))
    if deadlock and "Deadlock reached" in res["stdout"]:
        raise tlc.MachineryError("the model deadlocks (a run that cannot complete) in %s/%s:\n%s" % (
            module, name, "\n".join(res["stdout"].splitlines()[-40:])))
    if res["invariant_violated"]:
        raise tlc.MachineryError("spec-level invariant %s violated in %s/%s (the rules contradict a property):\n%s" % (
            res["invariant_violated"], module, name, "\n".join(res["stdout"].splitlines()[-60:])))
    tlc.require_clean(res, "%s/%s" % (module, name))
    if "states" not in res and not simulate:
        raise tlc.MachineryError("no state count from TLC on %s/%s\n%s" % (module, name, res["stdout"][-2000:]))
    ctx.states += res.get("states", 0)
    ctx.transitions += res.get("transitions", 0)
    ctx.mc_runs.append({"name": name, "module": module, "constants": {k: (sorted(v) if isinstance(v, (set, frozenset, list, tuple)) else v)
                                                                     for k, v in constants.items()},
                        "invariants": list(invariants), "states": res.get("states", 0),
                        "transitions": res.get("transitions", 0), "wall_s": round(res["wall_s"], 1)})
    ctx.log("MC %s/%s: %s distinct states, %s generated, %.1fs" % (module, name, res.get("states"), res.get("transitions"), res["wall_s"]))
    res["dump_path"] = dump_path
    return res


# --------------------------------------------------------------------------------------------- trace validation
def _validate_chunk(args):
    import tv
    events, module, tag = args
    return tv.validate(events, module, tag)


def validate_parallel(ctx, events, module, tag, session_key="sid", chunk=2500):
    """Validate events with several TLC processes; sessions are never split. Returns list of (id, clause)."""
    if not events:
        return []
    chunks, cur, last = [], [], None
    for e in events:
        k = e.get(session_key)
        if len(cur) >= chunk and k != last:
            chunks.append(cur)
            cur = []
        cur.append(e)
        last = k
    if cur:
        chunks.append(cur)
    rejects = []
    t0 = time.time()
    with cf.ThreadPoolExecutor(max_workers=NCPU) as ex:
        futs = [ex.submit(_validate_chunk, (c, module, "%s_%s_%d" % (ctx.prop, tag, i))) for i, c in enumerate(chunks)]
        for fu in futs:
            rej, info = fu.result()
            rejects.extend(rej)
            ctx.states += info["states"]
            ctx.transitions += info["transitions"]
    ctx.traces += len(events)
    ctx.log("TV %s/%s: %d events in %d chunks, %d rejected clauses, %.1fs" % (module, tag, len(events), len(chunks),
                                                                             len(rejects), time.time() - t0))
    return rejects


# --------------------------------------------------------------------------------------------- findings
def load_findings():
    out = []
    if os.path.exists(KF_FILE):
        with open(KF_FILE) as f:
            for line in f:
                line = line.strip()
                if line and not line.startswith("#"):
                    out.append(json.loads(line))
    return out


def match_finding(findings, prop, clause, e):
    for kf in findings:
        if kf.get("status") != "open" or kf.get("property") != prop:
            continue
        try:
            if eval(kf["when"], {"__builtins__": {"len": len, "any": any, "all": all, "min": min, "max": max,
                                                  "set": set, "sorted": sorted, "abs": abs, "range": range,
                                                  "isinstance": isinstance, "list": list, "dict": dict, "str": str}},
                    {"e": e, "clause": clause, "NA": -999999999, "kf": __import__("kf_helpers")}):
                return kf
        except Exception as ex:  # a broken predicate must not hide anything
            print("WARNING: finding %s predicate failed: %r" % (kf.get("id"), ex))
    return None


def report(ctx, owned_rejects, describe, replay_payload, example=None, max_print=12):
    """owned_rejects: list of (event, clause). Splits into known findings and violations, writes replay files."""
    findings = load_findings()
    seen_sig = {}
    for e, clause in owned_rejects:
        kf = match_finding(findings, ctx.prop, clause, e)
        if kf:
            ctx.known[kf["id"]] = ctx.known.get(kf["id"], 0) + 1
            continue
        sig = describe(e, clause)
        if sig in seen_sig:
            seen_sig[sig]["count"] += 1
            continue
        v = {"clause": clause, "sig": sig, "count": 1, "event": e,
             "example": example(e, clause) if example else ""}
        seen_sig[sig] = v
        ctx.violations.append(v)
    for kid, n in sorted(ctx.known.items()):
        kf = [k for k in findings if k.get("id") == kid][0]
        print("KNOWN-FINDING: property=%s %s [%s, %d occurrence(s) this run]" % (ctx.prop, kf["what"], kid, n))
    if ctx.violations:
        os.makedirs(ctx.replay_dir, exist_ok=True)
    for i, v in enumerate(ctx.violations):
        path = os.path.join(ctx.replay_dir, "%03d.json" % i)
        with open(path, "w") as f:
            json.dump(replay_payload(v), f, indent=1)
        v["replay"] = path
        if i < max_print:
            print("VIOLATION property=%s replay=%s" % (ctx.prop, path))
            print("   clause=%s x%d  %s  e.g. %s" % (v["clause"], v["count"], v["sig"][:200], v["example"][:400]))
    if len(ctx.violations) > max_print:
        print("   ... %d further distinct violation signatures (replay files written)" % (len(ctx.violations) - max_print))


# --------------------------------------------------------------------------------------------- evidence
def write_evidence(ctx, level="model_checking", rule="", extra=None):
    os.makedirs(EVID, exist_ok=True)
    cov = {"states": ctx.states, "transitions": ctx.transitions,
           "traces_validated_against_impl": ctx.traces,
           "samples": ctx.samples[:8] or ["(none)"],
           "evaluations": ctx.traces,
           "rule": rule,
           "model_checking_runs": ctx.mc_runs,
           "known_findings_seen": ctx.known,
           "rejected_clauses_owned_by_other_properties": ctx.other}
    cov.update(ctx.cov)
    cov.update(extra or {})
    ev = {"property_id": ctx.prop, "tier": ctx.tier, "seed": ctx.seed, "level": level, "coverage": cov,
          "assumptions": ctx.assumptions, "wall_s": round(time.time() - ctx.t0, 1),
          "violations": len(ctx.violations)}
    with open(os.path.join(EVID, ctx.prop + ".json"), "w") as f:
        json.dump(ev, f, indent=1, default=str)


def finish(ctx, level="model_checking", rule="", extra=None):
    write_evidence(ctx, level, rule, extra)
    ctx.log("done: states=%d transitions=%d traces=%d violations=%d known=%d" % (
        ctx.states, ctx.transitions, ctx.traces, len(ctx.violations), sum(ctx.known.values())))
    return 1 if ctx.violations else 0
