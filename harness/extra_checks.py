"""./vcheck extra : checks of specification growth beyond the 20 listed properties (DESIGN section 8).
Not registered in MANIFEST.json (no property of properties.jsonl states these behaviours); exit codes as usual."""
from __future__ import annotations

import json

import core
import tlc


def obs_of(c, queries, ctx_only=False):
    import config_checks as cc
    calls = cc.project_calls(c.calls)
    o = {"calls": calls, "stream_ids": [], "by_stream": [], "has": [], "contexts": [], "agg": [], "hashable": True}
    try:
        for x in c.calls:
            hash(x)                  # Call defines __hash__ next to __eq__
    except TypeError:
        o["hashable"] = False
    if ctx_only:
        return o
    o["stream_ids"] = list(c.stream_ids)
    for sid in list(c.stream_ids) + ["zz"]:
        o["by_stream"].append({"sid": sid, "calls": cc.project_calls(c.calls_by_stream_id(sid))})
    objs = list(c.calls)
    for (sid, mod, test) in queries:
        r = c.has(sid, "%s.%s" % (mod, test))
        idx = 0
        if r is not False:
            idx = [k for k, x in enumerate(objs) if x is r][0] + 1
        # the same question asked with the function object (the signature says Union[callable, str]); -1: it raised
        fidx = 0
        try:
            import importlib
            fobj = getattr(importlib.import_module("ioos_qc." + mod), test, None)
            if fobj is not None:
                r2 = c.has(sid, fobj)
                fidx = 0 if r2 is False else [k for k, x in enumerate(objs) if x is r2][0] + 1
            else:
                fidx = idx
        except ImportError:
            fidx = idx
        except Exception:  # noqa: BLE001
            fidx = -1
        o["has"].append({"sid": sid, "module": mod, "test": test, "idx": idx, "fidx": fidx})
    for context, cl in c.contexts.items():
        p = cc.project_calls(cl)
        o["contexts"].append({"win": p[0]["win"], "region": p[0]["region"], "calls": p})
    o["agg"] = cc.project_calls(c.aggregate_calls)
    return o


def check_configops(ctx):
    import logging
    logging.disable(logging.CRITICAL)
    import config_checks as cc
    import qcexec  # noqa: F401
    from ioos_qc.config import Config, ContextConfig
    core.mc(ctx, "configops", "MC_ConfigOps", {}, invariants=["InvViews"], init="MCOInit", nxt="MCONext")
    r = ctx.rng
    events = []

    def add(e):
        e["id"] = len(events) + 1
        events.append(e)
    queries = [("a", "qartod", "gross_range_test"), ("b.c", "qartod", "aggregate"), ("temp", "argo", "pressure_increasing_test"),
               ("a", "qartod", "spike_test"), ("_x", "qartod", "location_test"), ("zz", "qartod", "gross_range_test")]

    def grouped(cfg):
        for c in cfg:        # nested dicts group a stream's entries by module
            for s in c["streams"]:
                s["entries"] = sorted(s["entries"], key=lambda e: [x["module"] for x in s["entries"]].index(e["module"]))
        return cfg
    for n in range(ctx.pick(150, 1500)):
        cfg = grouped(cc.rand_cfg(r))
        sid = n + 1
        try:
            c = Config(cc.plain(cc.layout_dict(cfg, "contexts", "str")))
            if c.calls and n % 3 == 1:
                c = Config(list(c.calls))          # a Config built from Call objects
            elif c.calls and n % 3 == 2:
                c = Config(c)                      # ... or from another Config
            add({"ev": "new", "sid": sid, "cfg": cfg, "cfg2": [], "kind": "", "exc": "", "obs": obs_of(c, queries)})
        except Exception as ex:  # noqa: BLE001
            add({"ev": "new", "sid": sid, "cfg": cfg, "cfg2": [], "kind": "", "exc": type(ex).__name__, "obs": {}})
            continue
        for _ in range(r.randint(1, 3)):
            cfg2 = grouped(cc.rand_cfg(r))
            kind = r.choice(["config", "calls", "call", "objlist", "ctxobj"])
            try:
                src_cfg = Config(cc.plain(cc.layout_dict(cfg2, "contexts", "str")))
                if kind == "config":
                    c.add(src_cfg)
                elif kind == "calls":
                    c.add(list(src_cfg.calls))
                elif kind == "call":
                    c.add(src_cfg.calls[0]) if src_cfg.calls else c.add([])
                elif kind == "objlist":
                    c.add([src_cfg])
                else:
                    cfg2 = cfg2[:1]
                    c.add(ContextConfig(cc.plain(cc.ctx_dict(cfg2[0], "str"))))
                add({"ev": "add", "sid": sid, "cfg": [], "cfg2": cfg2, "kind": kind, "exc": "", "obs": obs_of(c, queries)})
            except Exception as ex:  # noqa: BLE001
                add({"ev": "add", "sid": sid, "cfg": [], "cfg2": cfg2, "kind": kind, "exc": type(ex).__name__, "obs": {}})
                break
        # ContextConfig.add keeps only the calls of its own context
        one = grouped(cc.rand_cfg(r))[:1]
        try:
            cx = ContextConfig(cc.plain(cc.ctx_dict(one[0], "str")))
            add({"ev": "ctxnew", "sid": sid, "cfg": one, "cfg2": [], "kind": "", "exc": "", "obs": obs_of(cx, queries, True)})
            for _ in range(2):
                cfg2 = grouped(cc.rand_cfg(r))
                if r.random() < 0.5:      # make a matching context likely
                    cfg2[0]["win"], cfg2[0]["region"] = one[0]["win"], one[0]["region"]
                cx.add(Config(cc.plain(cc.layout_dict(cfg2, "contexts", "str"))))
                add({"ev": "ctxadd", "sid": sid, "cfg": [], "cfg2": cfg2, "kind": "config", "exc": "", "obs": obs_of(cx, queries, True)})
        except Exception as ex:  # noqa: BLE001
            add({"ev": "ctxadd", "sid": sid, "cfg": [], "cfg2": [], "kind": "config", "exc": type(ex).__name__, "obs": {}})
    rejects = core.validate_parallel(ctx, events, "Trace_ConfigOps", "configops", session_key="sid", chunk=1500)
    by = {e["id"]: e for e in events}
    return [(by[i], cl) for i, cl in rejects], len(events)


def check_timestamps(ctx):
    import itertools
    import numpy as np
    import qcexec  # noqa: F401
    from ioos_qc.utils import check_timestamps as f
    events = []
    vals = [0, 1, 2, 5]
    for n in range(0, 5):
        for t in itertools.product(vals, repeat=n):
            for mg in (-999999999, 1, 3):
                e = {"id": len(events) + 1, "t": list(t), "maxgap": mg, "exc": "", "out": False}
                try:
                    arr = np.array([1577836800 + v for v in t], dtype="int64").astype("datetime64[s]")
                    e["out"] = bool(f(arr, None if mg == -999999999 else np.timedelta64(mg, "s")))
                except Exception as ex:  # noqa: BLE001
                    e["exc"] = type(ex).__name__
                events.append(e)
    import tv
    rej, _ = tv.validate(events, "TimeUtil", "X_ts")
    by = {e["id"]: e for e in events}
    return [(by[i], cl) for i, cl in rej], len(events)


def check_2d(ctx):
    """shape preservation: a 2-D input gives the flags of its flattened self, in the input's shape"""
    import numpy as np
    import gen_qc
    import qc_checks
    import qcexec
    g = gen_qc.Gen(ctx.seed + 77, size=8)
    rec = qc_checks.Recorder()
    for fn in ["gross", "spike", "roc", "flat", "att", "loc", "clim"]:
        for _ in range(ctx.pick(15, 100)):
            c = g.base(fn)
            n = len(c["lon"]) if fn == "loc" else len(c["x"])
            if n < 2 or n % 2 or (fn in ("roc", "flat", "att", "clim") and len(c["t"]) != n) or (fn == "loc" and len(c["lat"]) != n):
                continue
            if fn == "loc" and c["p"]["shapes"] != "same":
                continue      # (a call that is about two inputs of DIFFERENT shapes; reshaping both alike would undo that)
            func, kw = qcexec.build(c, {})
            kw2 = dict(kw)
            for k in ("inp", "tinp", "zinp", "lon", "lat"):
                if k in kw2 and isinstance(kw2[k], np.ndarray) and kw2[k].shape == (n,):
                    kw2[k] = kw2[k].reshape(2, n // 2)
            o1 = qcexec.execute(c, {})
            try:
                res = func(**kw2)
                o2 = qcexec.project(np.asarray(np.ma.getdata(res)).ravel(), n)
                o2["shape_ok"] = tuple(np.shape(res)) == (2, n // 2)
                o2["masked"] = int(np.ma.getmaskarray(res).sum())
            except Exception as ex:  # noqa: BLE001
                o2 = {"exc": type(ex).__name__, "out": [], "masked": 0, "shape_ok": True, "alpha_ok": True}
            o2["same"], o2["again"] = True, True
            o1.pop("msg", None)
            rec.sid += 1
            b = {"id": len(rec.events) + 1, "sid": rec.sid, "call": c, "rel": {"kind": "base", "i": 0, "k": 0}, "lenient": False,
                 "obs": o1, "judge": "all"}
            rec.events.append(b)
            rec.events.append(dict(b, id=len(rec.events) + 1, rel={"kind": "recall", "i": 0, "k": 0}, obs=o2))
    rej = core.validate_parallel(ctx, [qc_checks.tlc_view(e) for e in rec.events], "Trace_Qc", "twod")
    by = {e["id"]: e for e in rec.events}
    return [(by[i], cl) for i, cl in rej if by[i]["rel"]["kind"] == "recall"], len(rec.events)


def check_clim_nat(ctx):
    """climatology_test on observations without a time (NaT): such a point lies in no member's time span"""
    import gen_qc
    import qc_checks
    g = gen_qc.Gen(ctx.seed + 79, size=8)
    rec = qc_checks.Recorder()
    for _ in range(ctx.pick(300, 1500)):
        c = g.base("clim")
        if len(c["t"]) != len(c["x"]) or not c["t"]:
            continue
        for i in g.r.sample(range(len(c["t"])), g.r.randint(1, min(2, len(c["t"])))):
            c["t"][i] = gen_qc.NA
        rec.session([({"kind": "base", "i": 0, "k": 0}, c)], qc_checks.CONCS[0])
    rej = core.validate_parallel(ctx, [qc_checks.tlc_view(e) for e in rec.events], "Trace_Qc", "climnat")
    by = {e["id"]: e for e in rec.events}
    return [(by[i], cl) for i, cl in rej], len(rec.events)


def check_global_attr_precedence(ctx):
    """documented in load_config_from_xarray: 'If a global attribute exists ... ignore any config at the variable level'.
    A Dataset carrying the configuration as global attribute AND unrelated per-variable QC attributes must load exactly
    like the global attribute alone (validated with Trace_Config; the spec does not know about the decoy attributes)."""
    import json as _json
    import numpy as np
    import xarray as xr
    import config_checks as cc
    import qcexec  # noqa: F401
    from ioos_qc.config import Config
    r = ctx.rng
    events = []
    for n in range(ctx.pick(120, 1000)):
        cfg = cc.rand_cfg(r)
        layout = r.choice([la for la in cc.LAYOUTS if cc.expressible(cfg, la, "xr_global")])
        d = cc.layout_dict(cfg, layout, "str")
        decoy = {"qc%d" % k: (("time",), np.zeros(3), {"ioos_qc_module": "qartod", "ioos_qc_test": t, "ioos_qc_target": tgt,
                                                       "ioos_qc_config": _json.dumps(p)})
                 for k, (t, tgt, p) in enumerate([("spike_test", "a", {"suspect_threshold": 9}), ("gross_range_test", "zz", {"fail_span": [0, 1]}),
                                                  ("flat_line_test", "temp", {"tolerance": 1, "suspect_threshold": 1, "fail_threshold": 2})])}
        ds = xr.Dataset(decoy, attrs={"ioos_qc_config": _json.dumps(d)})
        e = {"id": n + 1, "cid": n, "ev": "load", "cfg": cfg, "layout": layout, "carrier": "xr_global", "exc": "", "calls": [],
             "ncalls": 0, "rt": {"exc": "", "calls": []}, "again": {"done": False, "exc": "", "calls": [], "ncalls": 0}, "ndistinct": 10 ** 6}
        try:
            c = Config(ds)
            e["calls"], e["ncalls"] = cc.project_calls(c.calls), len(c.calls)
            e["rt"]["calls"] = e["calls"]
        except Exception as ex:  # noqa: BLE001
            e["exc"] = type(ex).__name__
        events.append(e)
    import tv
    rej, _ = tv.validate(events, "Trace_Config", "X_glob")
    by = {e["id"]: e for e in events}
    return [(by[i], cl) for i, cl in rej if cl != "c07_roundtrip"], len(events)


def check_api_meta(ctx):
    import qcexec  # noqa: F401
    import pipe_exec
    import tv
    from ioos_qc import argo, axds, qartod
    events = []
    for mod, names in ((qartod, ["gross_range_test", "location_test", "climatology_test", "spike_test", "rate_of_change_test",
                                 "flat_line_test", "attenuated_signal_test", "density_inversion_test", "aggregate"]),
                       (argo, ["pressure_increasing_test", "speed_test"]), (axds, ["valid_range_test"])):
        for nme in names:
            f = getattr(mod, nme)
            events.append({"id": len(events) + 1, "ev": "meta", "fn": "%s.%s" % (mod.__name__, nme),
                           "has_standard_name": hasattr(f, "standard_name"), "has_long_name": hasattr(f, "long_name")})
    tb = {"t": [0, 10, 20, 30], "hastime": True, "data": {"a": [0, 5, -3, 300], "b": [1, 1, 5, 0]}, "z": [0, 1, 2, 3],
          "lat": [1, 2, 3, 4], "lon": [5, 6, 7, 8]}
    cfg = [{"win": [NA_, NA_], "entries": [{"stream": "a", "fn": "gross", "p": {"fail": [0, 4], "susp": []}}]}]
    wd = tlc.workdir("extra_acc")
    for fe in ("pandas", "numpy_arr", "xarray", "netcdf_ds"):
        st = pipe_exec.make_stream(fe, tb, cfg, wd)
        for what in ("time", "data"):
            e = {"id": len(events) + 1, "ev": "accessor", "frontend": fe, "what": what, "exc": "", "got": [],
                 "want": tb["t"] if what == "time" else tb["data"]["a"]}
            try:
                if what == "time":
                    v = st.time()
                else:
                    v = st.data() if fe == "numpy_arr" else st.data("a")
                e["got"] = pipe_exec.absarr(v.to_numpy() if hasattr(v, "to_numpy") else v)
            except Exception as ex:  # noqa: BLE001
                e["exc"] = type(ex).__name__
            events.append(e)
    rej, _ = tv.validate(events, "ApiMeta", "X_api")
    by = {e["id"]: e for e in events}
    return [(by[i], cl) for i, cl in rej], len(events)


NA_ = -999999999


def check_clim_values(ctx):
    """ClimatologyConfig.values(t, z): member lists from the C08 generator, times on and around the span ends"""
    import pandas as pd
    import gen_qc
    import qcexec  # noqa: F401
    from ioos_qc import qartod
    g = gen_qc.Gen(ctx.seed + 101, size=6)
    r = g.r
    events = []
    for _ in range(1500):
        ms = [g.member() for _ in range(r.randint(0, 3))]
        cc = qartod.ClimatologyConfig()
        for m in ms:
            kw = {"vspan": tuple(m["vspan"])}
            if m["period"] == "":
                kw["tspan"] = tuple(pd.Timestamp(v, unit="s") for v in m["tspan"])
            else:
                kw["tspan"], kw["period"] = tuple(m["tspan"]), m["period"]
            if m["fspan"]:
                kw["fspan"] = tuple(m["fspan"])
            if m["zspan"]:
                kw["zspan"] = tuple(m["zspan"])
            cc.add(**kw)
        # times: the ends of the absolute spans, one second either side, and edge days of the calendar
        cand = [d * 86400 + s for d in gen_qc.EDGE_DAYS[:12] for s in (0, 43200)]
        for m in ms:
            if m["period"] == "":
                cand += [v + k for v in m["tspan"] for k in (-1, 0, 1)]
        for t in r.sample(cand, min(6, len(cand))):
            for z in r.sample([gen_qc.NA, 0, 5, 10, 20, 7], 3):
                e = {"id": len(events) + 1, "members": ms, "t": t, "z": z, "out": [], "exc": ""}
                try:
                    out = cc.values(pd.Timestamp(t, unit="s"), None if z == gen_qc.NA else float(z))
                    e["out"] = [] if out[0] is None else [int(out[0]), int(out[1])]
                except Exception as ex:  # noqa: BLE001
                    e["exc"] = type(ex).__name__
                events.append(e)
    rejects = core.validate_parallel(ctx, events, "Trace_ClimValues", "climvalues", session_key="none", chunk=2500)
    by = {e["id"]: e for e in events}
    return [(by[i], cl) for i, cl in rejects], len(events)


def check_time_zones(ctx):
    """utils.mapdates on times carrying a UTC offset (TimeZones.tla)"""
    import datetime as dt
    import numpy as np
    import pandas as pd
    import qcexec  # noqa: F401
    from ioos_qc.utils import mapdates
    base = 1580515200      # 2020-02-01T00:00:00Z
    r = ctx.rng
    events = []
    for n in range(600):
        off = r.choice([-18000, 7200, 19800, 0, -34200, 3600])
        wall = sorted(r.sample(range(-90000, 90000, 1800), r.randint(1, 5)))
        tz = dt.timezone(dt.timedelta(seconds=off))
        pyd = [dt.datetime(1970, 1, 1, tzinfo=tz) + dt.timedelta(seconds=base + w - 0) - dt.timedelta(seconds=0) for w in wall]
        # the wall clock of pyd[i] in its zone must read base + wall[i]
        pyd = [dt.datetime.fromtimestamp(base + w - off, tz=tz) for w in wall]
        for carrier in ("pydt_tz", "tuple_tz", "pdts_tz", "iso_offset", "np_object", "series_tz", "dtindex_tz"):
            if carrier == "pydt_tz":
                src = list(pyd)
            elif carrier == "tuple_tz":
                src = tuple(pyd)
            elif carrier == "pdts_tz":
                src = [pd.Timestamp(d) for d in pyd]
            elif carrier == "iso_offset":
                src = [d.isoformat() for d in pyd]
            elif carrier == "np_object":
                src = np.array(pyd, dtype=object)
            elif carrier == "series_tz":
                src = pd.Series(pd.DatetimeIndex(pyd))
            else:
                src = pd.DatetimeIndex(pyd)
            e = {"id": len(events) + 1, "wall": wall, "offset": off, "carrier": carrier, "out": [], "exc": ""}
            try:
                out = mapdates(src)
                e["out"] = [int(v) - base for v in np.asarray(out).astype("datetime64[s]").astype("int64")]
            except Exception as ex:  # noqa: BLE001
                e["exc"] = type(ex).__name__
            events.append(e)
    import tv
    rej, _ = tv.validate(events, "TimeZones", "X_tz")
    by = {e["id"]: e for e in events}
    return [(by[i], cl) for i, cl in rej], len(events)


def check_dictops(ctx):
    """utils.dict_update / dict_depth on every pair of trees of depth <= 2 over two keys and two leaf values, plus a few
    three-key / depth-3 ones; dict, OrderedDict and mixed mappings"""
    import copy
    import itertools
    from collections import OrderedDict
    import qcexec  # noqa: F401
    from ioos_qc.utils import dict_depth, dict_update

    def nodes_over(T, keys):
        out = []
        for r in range(len(keys) + 1):
            for S in itertools.combinations(keys, r):
                for vals in itertools.product(T, repeat=len(S)):
                    out.append(dict(zip(S, vals)))
        return out
    L0 = [1, 2]
    L1 = L0 + nodes_over(L0, ["a", "b"])
    L2 = L1 + nodes_over(L1, ["a", "b"])
    deep = [{"a": {"b": {"c": 1}}}, {"a": {"b": {}}, "c": 2}, {"c": {"a": {"a": 2}}, "a": 1}, {"a": {"b": {"c": {}}}}]

    def enc(t):
        if isinstance(t, dict):
            return {"k": "node", "m": [[k, enc(t[k])] for k in sorted(t)]}
        return {"k": "leaf", "v": t}

    def conv(t, kind):
        if isinstance(t, dict):
            cls = OrderedDict if kind == "odict" else dict
            return cls((k, conv(v, kind)) for k, v in t.items())
        return t
    events = []
    pairs = [(d, u) for d in L2 for u in L2 if isinstance(u, dict)] + [(d, u) for d in deep + L1 for u in deep]
    for n, (d0, u0) in enumerate(pairs):
        d, u = conv(copy.deepcopy(d0), ["dict", "odict"][n % 2]), conv(copy.deepcopy(u0), ["dict", "dict", "odict"][n % 3])
        e = {"id": len(events) + 1, "d": enc(d0), "u": enc(u0), "out": enc(0), "uafter": enc(0), "inplace": False,
             "depth_d": -1, "depth_out": -1, "exc": ""}
        try:
            e["depth_d"] = dict_depth(d)
            out = dict_update(d, u)
            e["out"], e["uafter"], e["inplace"] = enc(out), enc(u), out is d
            e["depth_out"] = dict_depth(out)
        except Exception as ex:  # noqa: BLE001
            e["exc"] = type(ex).__name__
        events.append(e)
    import tlc
    res = tlc.run_tlc("MC_DictOps", cfg="MC_DictOps.cfg", workers=core.NCPU, tag="X_dictops_mc", timeout=1200)
    tlc.require_clean(res, "MC_DictOps")
    if res["invariant_violated"]:
        raise tlc.MachineryError("MC_DictOps: a law of the merge is violated: %r" % res["invariant_violated"])
    ctx.log("MC MC_DictOps: %d distinct states, laws Idempotent / UpdateWins / Neutral / KeysUnion / DepthBound / "
            "AssociativeIfNoClash hold" % res.get("states", 0))
    rejects = core.validate_parallel(ctx, events, "Trace_DictOps", "dictops", session_key="none", chunk=2500)
    by = {e["id"]: e for e in events}
    return [(by[i], cl) for i, cl in rejects], len(events)


def check_scalar_util(ctx):
    """utils.isnan / isfixedlength / masked_float64 (ScalarUtil.tla)"""
    import numpy as np
    import qcexec  # noqa: F401
    from ioos_qc.utils import isfixedlength, isnan, masked_float64
    r = ctx.rng
    events = []

    def ev(d):
        d["id"] = len(events) + 1
        events.append(d)
    values = {"none": None, "np_nan": np.nan, "float_nan": float("nan"), "np_float64_nan": np.float64("nan"),
              "masked": np.ma.masked, "zero": 0, "int": 7, "float": 2.5, "neg": -3.0, "str": "x"}
    for kind, v in values.items():
        e = {"ev": "isnan", "kind": kind, "out": False, "exc": ""}
        try:
            e["out"] = bool(isnan(v))
        except Exception as ex:  # noqa: BLE001
            e["exc"] = type(ex).__name__
        ev(e)
    makers = {"list": list, "tuple": tuple, "ndarray": np.array, "str": lambda x: "".join("x" for _ in x), "none": lambda x: None,
              "int": lambda x: len(x), "set": set, "dict": lambda x: {i: i for i in x}}
    for kind, mk in makers.items():
        for ln in range(0, 5):
            for want in range(0, 5):
                e = {"ev": "fixed", "kind": kind, "len": ln, "want": want, "out": ""}
                try:
                    e["out"] = str(isfixedlength(mk(list(range(ln))), want))
                except Exception as ex:  # noqa: BLE001
                    e["out"] = type(ex).__name__
                ev(e)
    elem = {"v": None, "none": None, "nan": float("nan"), "inf": float("inf"), "ninf": float("-inf"), "masked": None}
    for rep in range(400):
        n = r.randint(0, 6)
        kinds = [r.choice(["v", "v", "v", "none", "nan", "inf", "ninf", "masked"]) for _ in range(n)]
        src = [r.randint(-50, 50) for _ in range(n)]
        carrier = r.choice(["list", "f64", "ma", "object", "i64"])
        if carrier in ("f64", "i64"):
            kinds = ["v" if k in ("none", "masked") else k for k in kinds]
        if carrier == "i64":
            kinds = ["v"] * n
        if carrier != "ma":
            kinds = ["v" if k == "masked" else k for k in kinds]
        raw = [float(s) if k == "v" else (None if k == "none" else elem[k] if k != "masked" else 777.0) for s, k in zip(src, kinds)]
        if carrier == "list":
            obj = list(raw)
        elif carrier == "object":
            obj = np.array(raw, dtype=object)
        elif carrier == "f64":
            obj = np.array(raw, dtype=np.float64)
        elif carrier == "i64":
            obj = np.array(src, dtype=np.int64)
        else:
            obj = np.ma.MaskedArray(np.array([np.nan if x is None else x for x in raw], dtype=np.float64),
                                    mask=[k == "masked" for k in kinds])
        kinds = ["nan" if (k == "none" and carrier == "ma") else k for k in kinds]

        def snap(o):
            if isinstance(o, np.ma.MaskedArray):
                return [repr(x) for x in o.data.tolist()] + [repr(x) for x in np.ma.getmaskarray(o).tolist()]
            return [repr(x) for x in (o.tolist() if isinstance(o, np.ndarray) else o)]
        e = {"ev": "mf64", "kinds": kinds, "src": src, "carrier": carrier, "mask": [], "vals": [], "exc": "",
             "src_before": snap(obj), "src_after": []}
        try:
            out = masked_float64(obj)
            e["mask"] = [bool(b) for b in np.ma.getmaskarray(out).tolist()]
            e["vals"] = [int(x) if (not m and float(x).is_integer()) else 0 for x, m in zip(out.data.tolist(), e["mask"])]
        except Exception as ex:  # noqa: BLE001
            e["exc"] = type(ex).__name__
        e["src_after"] = snap(obj)
        ev(e)
    import tv
    rej, _ = tv.validate(events, "ScalarUtil", "X_scalar")
    by = {e["id"]: e for e in events}
    return [(by[i], cl) for i, cl in rej], len(events)


# Growth findings on the unchanged tree (documented in DESIGN.md section 8; none of them is a listed property). A rejected
# clause they explain is printed as GROWTH-FINDING; anything else is an EXTRA-REJECT and makes `./vcheck extra` exit 1.
KNOWN_GROWTH = [
    ("G1 check_timestamps([]) with a maximum interval raises UFuncTypeError",
     lambda name, cl, e: cl == "check_timestamps" and e.get("exc") == "UFuncTypeError" and e.get("t") == []),
    ("G2 attenuated_signal_test raises IndexError on 2-D input",
     lambda name, cl, e: "2-D" in name and e.get("call", {}).get("fn") == "att" and e.get("obs", {}).get("exc") == "IndexError"),
    ("G3 argo.pressure_increasing_test has no standard_name (misspelt keyword)",
     lambda name, cl, e: "ApiMeta" in name and "pressure_increasing" in json.dumps(e)),
    ("G4 Config.has(stream, function object) raises TypeError",
     lambda name, cl, e: cl == "ops_has_callable" and all(h["fidx"] in (-1, h["idx"]) for h in e["obs"]["has"])
     and any(h["fidx"] == -1 for h in e["obs"]["has"])),
    ("G5 a Call whose parameters hold a list is not hashable",
     lambda name, cl, e: cl == "ops_hashable"),
    ("G7 utils.isnan is an identity test: a NaN that is not the numpy singleton (float('nan'), np.float64('nan')) is 'not NaN'",
     lambda name, cl, e: cl == "isnan_value" and e.get("kind") in ("float_nan", "np_float64_nan") and e.get("out") is False),
    ("G6 climatology_test with a week-based member raises ValueError when an observation has no time (NaT)",
     lambda name, cl, e: "NaT" in name and e["obs"]["exc"] == "ValueError"
     and any(m["period"] in ("week", "weekofyear") for m in e["call"]["p"]["members"])),
]


def run():
    ctx = core.Ctx("X-extra", "quick", 20261002)
    rc = 0
    for name, fn in (("Config container API (ConfigOps.tla)", check_configops), ("utils.check_timestamps (TimeUtil.tla)", check_timestamps),
                     ("2-D inputs keep their shape (Trace_Qc, recall)", check_2d),
                     ("climatology_test on observations without a time (NaT) (QcTests.MemberMatches)", check_clim_nat),
                     ("global ioos_qc_config attribute wins over per-variable attributes (Trace_Config)", check_global_attr_precedence),
                     ("flag metadata of the test functions, stream accessors (ApiMeta.tla)", check_api_meta),
                     ("utils.dict_update / dict_depth (DictOps.tla)", check_dictops),
                     ("ClimatologyConfig.values lookup (QcTests.ClimValues)", check_clim_values),
                     ("utils.mapdates on times with a UTC offset (TimeZones.tla)", check_time_zones),
                     ("utils.isnan / isfixedlength / masked_float64 (ScalarUtil.tla)", check_scalar_util)):
        owned, n = fn(ctx)
        known, fresh = {}, []
        for e, cl in owned:
            hit = None
            for label, pred in KNOWN_GROWTH:
                try:
                    if pred(name, cl, e):
                        hit = label
                        break
                except Exception:  # noqa: BLE001  a predicate that does not fit the event explains nothing
                    pass
            if hit:
                known[hit] = known.get(hit, 0) + 1
            else:
                fresh.append((e, cl))
        ctx.log("%s: %d events, %d rejected clauses (%d explained by known growth findings)" % (name, n, len(owned), len(owned) - len(fresh)))
        for label, k in known.items():
            print("GROWTH-FINDING: %s [%d rejected clause(s) this run]" % (label, k))
        for e, cl in fresh[:6]:
            print("EXTRA-REJECT %s %s" % (cl, json.dumps({k: e[k] for k in e if k not in ("obs",)})[:300]), json.dumps(e.get("obs", {}))[:200])
        rc = rc or (1 if fresh else 0)
    return rc
