"""C20: expression evaluator, spec validator, config creator. Spec: spec/FxParser.tla (+ MC_FxParser, Trace_Fx)."""
from __future__ import annotations

import json
import os
import re
from fractions import Fraction

import core
import tlc

PROPS = {"C20"}
STATS = ("min", "max", "mean", "std")
ALLOWED = ["0", "1", "2.5", "-1", "1e3", "10", "3.", "007", "min", "max", "mean", "std", "+", "-", "*", "/", "(", ")"]
BAD = ["", "median", "Mean", "mean-std", "(min)", "^", "x", "sin", "1+2", "min,", "MAX", "std)", "2,5", "__import__", "pi"]


def num_text(v, style=0):
    """decimal text of a rational; style varies the spelling (exponent, trailing dot, leading zeros)"""
    n, d = v
    f = Fraction(n, d)
    if f.denominator == 1:
        k = f.numerator
        if style == 1 and k >= 10 and k % 10 == 0:
            return "%de1" % (k // 10)
        if style == 2:
            return "%d." % k
        if style == 3 and k >= 0:
            return "0%d" % k
        return str(k)
    if style == 1:
        return ("%e" % float(f)).replace("e-0", "e-").replace("e+0", "e+")
    return repr(float(f))


STYLE = [0]


def tok_text(t):
    k = t["k"]
    if k == "num":
        txt = num_text(t["v"], STYLE[0])
        return txt if Fraction(txt) == Fraction(*t["v"]) else num_text(t["v"], 0)
    if k in ("stat", "id", "op"):
        return t["s"]
    return "(" if k == "lp" else ")"


def render(toks, compact):
    parts = [tok_text(t) for t in toks]
    if not compact:
        return " ".join(parts)
    out = ""
    for p in parts:
        if out and (out[-1].isalnum() or out[-1] == ".") and (p[0].isalnum() or p[0] == "."):
            out += " "
        out += p
    return out


def item_of(s):
    """an exprStack item -> stack item record of the spec"""
    if s == "unary -":
        return {"k": "um"}
    if isinstance(s, str) and s in "+-*/" and len(s) == 1:
        return {"k": "op", "s": s}
    if s in STATS:
        return {"k": "stat", "s": s}
    if isinstance(s, str) and re.fullmatch(r"[+-]?\d+(?:\.\d*)?(?:[eE][+-]?\d+)?", s):
        f = Fraction(s)
        return {"k": "num", "v": [f.numerator, f.denominator]}
    return {"k": "id", "s": str(s)}


def frac_of(x):
    import math
    if math.isinf(x) or math.isnan(x):
        return [0, 0], False
    f = Fraction(x).limit_denominator(20000)
    ok = abs(float(f) - x) <= 1e-9 * (1 + abs(x))
    return [f.numerator, f.denominator], ok


class Session:
    def __init__(self):
        import qcexec  # noqa: F401
        from ioos_qc.config_creator import fx_parser
        self.fx = fx_parser
        self.events = []

    def add(self, e):
        e["id"] = len(self.events) + 1
        self.events.append(e)

    def reset(self):
        del self.fx.exprStack[:]
        self.add({"ev": "reset", "after": len(self.fx.exprStack)})

    def eval(self, toks, stats, compact=False):
        text = render(toks, compact)
        st = {k: float(Fraction(*v)) for k, v in stats.items()}
        before = len(self.fx.exprStack)
        e = {"ev": "eval", "toks": toks, "stats": stats, "text": text, "before": before, "ok": False, "val": [0, 0],
             "exc": "", "resid_ok": True}
        try:
            v = self.fx.eval_fx(text, st)
            e["ok"] = True
            e["val"], e["resid_ok"] = frac_of(float(v))
        except BaseException as ex:  # noqa: BLE001
            e["exc"] = type(ex).__name__
        e["after"] = len(self.fx.exprStack)
        e["tail"] = [item_of(s) for s in self.fx.exprStack[before:]]
        self.add(e)

    def validate(self, tokens):
        from ioos_qc.config_creator.config_creator import QcVariableConfig
        spec = " ".join(tokens)
        cfg = {"variable": "v", "bbox": [0, 0, 1, 1], "start_time": "2020-01-01", "end_time": "2020-02-01",
               "tests": {"gross_range_test": {"suspect_min": "1", "suspect_max": "2", "fail_min": spec, "fail_max": "3"}}}
        e = {"ev": "validate", "tokens": tokens, "accepted": False, "exc": ""}
        try:
            QcVariableConfig(cfg)
            e["accepted"] = True
        except BaseException as ex:  # noqa: BLE001
            e["exc"] = type(ex).__name__
        self.add(e)

    def validate_cfg(self, tests):
        """tests: list of (test name, entries); entries in written order: {"kind": "spec"/"bbox", "key", "tokens"}"""
        from ioos_qc.config_creator.config_creator import QcVariableConfig
        cfg = {"variable": "v", "bbox": [0, 0, 1, 1], "start_time": "2020-01-01", "end_time": "2020-02-01", "tests": {}}
        for name, entries in tests:
            cfg["tests"][name] = {en["key"]: ([0, 0, 1, 1] if en["kind"] == "bbox" else " ".join(en["tokens"])) for en in entries}
        e = {"ev": "validate_cfg", "tests": [entries for _, entries in tests], "accepted": False, "exc": ""}
        try:
            QcVariableConfig(cfg)
            e["accepted"] = True
        except BaseException as ex:  # noqa: BLE001
            e["exc"] = type(ex).__name__
        self.add(e)


def rand_expr(r, depth, atoms):
    if depth == 0 or r.random() < 0.25:
        return [r.choice(atoms)]
    c = r.random()
    if c < 0.15:
        return [{"k": "op", "s": "-"}] + rand_expr(r, depth - 1, atoms)
    if c < 0.35:
        return [{"k": "lp"}] + rand_expr(r, depth - 1, atoms) + [{"k": "rp"}]
    return rand_expr(r, depth - 1, atoms) + [{"k": "op", "s": r.choice("+-*/")}] + rand_expr(r, depth - 1, atoms)


def check(ctx):
    s = Session()
    core.mc(ctx, "fx", "MC_FxParser", {"Depth": 2, "Big": not ctx.quick},
            invariants=["InvValue", "InvGrammar", "InvTail", "InvFrame"], init="MCFInit", nxt="MCFNext", timeout=3300)
    # spec -> code: every expression of a smaller instance (depth 1, full atom pool), replayed without ever
    # clearing the real stack in between except at the session boundaries the trace spec is told about
    res = core.mc(ctx, "fx_replay", "MC_FxParser", {"Depth": 1, "Big": True},
                  invariants=["InvValue"], init="MCFInit", nxt="MCFNext", dump=True)
    with open(res["dump_path"]) as f:
        blocks = re.split(r"^State \d+:\s*$", f.read(), flags=re.M)[1:]
    os.remove(res["dump_path"])
    seen, n = set(), 0
    s.reset()
    order = list(range(len(blocks)))
    ctx.rng.shuffle(order)
    for i in order:
        st = {}
        for part in re.split(r"^/\\ ", blocks[i].strip(), flags=re.M):
            if part.strip():
                name, _, val = part.strip().partition(" = ")
                st[name.strip()] = tlc.parse_value(val)
        if not st["lastT"]:
            continue
        key = json.dumps([st["lastT"], st["lastS"]])
        if key in seen:
            continue
        seen.add(key)
        stats = st["lastS"] if st["lastS"]["min"] != [0, 0] else {"min": [1, 1], "max": [4, 1], "mean": [5, 2], "std": [3, 2]}
        s.eval(st["lastT"], stats, compact=(n % 3 == 0))
        n += 1
        if n % 40 == 0:
            s.reset()
    ctx.cov["expressions_from_model_states"] = n
    # code -> spec: random deeper expressions, random statistics, failed parses and invalid identifiers in between
    r = ctx.rng
    atoms = ([{"k": "num", "v": v} for v in ([0, 1], [1, 1], [2, 1], [3, 1], [1, 2], [5, 2], [10, 1], [7, 4])] +
             [{"k": "stat", "s": x} for x in STATS])
    bad = [[{"k": "lp"}, atoms[1]], [atoms[1], {"k": "op", "s": "+"}], [atoms[1], {"k": "op", "s": "+"}, atoms[2], {"k": "rp"}],
           [{"k": "rp"}], [atoms[1], atoms[2]], [{"k": "op", "s": "*"}, atoms[2]],
           [{"k": "lp"}, {"k": "lp"}, atoms[3], {"k": "op", "s": "*"}, atoms[9], {"k": "rp"}],
           [atoms[2], {"k": "op", "s": "/"}, {"k": "lp"}, atoms[1], {"k": "op", "s": "-"}]]
    idents = [[{"k": "id", "s": "foo"}], [atoms[1], {"k": "op", "s": "+"}, {"k": "id", "s": "median"}],
              [{"k": "op", "s": "-"}, {"k": "id", "s": "stdev"}, {"k": "op", "s": "*"}, atoms[2]]]
    recent = []
    for k in range(ctx.pick(2500, 40000)):
        if k % 35 == 0:
            s.reset()
        c = r.random()
        stats = {x: [r.randint(-6, 12), r.choice([1, 1, 2, 4])] for x in STATS}
        if c < 0.12:
            s.eval(r.choice(bad), stats)
        elif c < 0.2:
            s.eval(r.choice(idents), stats)
        else:
            STYLE[0] = r.choice([0, 0, 0, 1, 2, 3])
            ex = rand_expr(r, r.choice([1, 2, 3, 3, 4]), atoms)
            s.eval(ex, stats, compact=r.random() < 0.3)
            recent.append((ex, stats))
            del recent[:-12]
            STYLE[0] = 0
        if recent and r.random() < 0.3:
            # A ... B ... A again: an earlier expression re-evaluated later, with the same and with other statistics
            ex, st0 = r.choice(recent)
            s.eval(ex, st0 if r.random() < 0.5 else stats)
    # validator: all token strings of length <= 3 (quick) / 4 over a class-covering alphabet + random longer ones
    import itertools
    alpha = ["1", "mean", "+", "(", "", "mean-std", "Mean", "2.5", "x"]
    for ln in range(1, ctx.pick(3, 4) + 1):
        for tokens in itertools.product(alpha, repeat=ln):
            s.validate(list(tokens))
    for _ in range(ctx.pick(300, 3000)):
        tokens = [r.choice(ALLOWED) if r.random() < 0.85 else r.choice(BAD) for _ in range(r.randint(1, 9))]
        s.validate(tokens)
    # whole configurations: 1..3 tests, the four limits written in any order, a per-test bbox at any position,
    # zero, one or two specifications with a token that is not allowed -- in every slot
    keys = ["suspect_min", "suspect_max", "fail_min", "fail_max"]
    names = ["gross_range_test", "spike_test", "location_test"]

    def cfg_case(ntests, bad_slots, bbox_pos):
        tests = []
        for ti in range(ntests):
            order = keys[:]
            r.shuffle(order)
            entries = [{"kind": "spec", "key": k, "tokens": [r.choice(ALLOWED) for _ in range(r.randint(1, 4))]} for k in order]
            for (bt, bk) in bad_slots:
                if bt == ti:
                    en = entries[bk]
                    en["tokens"] = list(en["tokens"])
                    en["tokens"][r.randrange(len(en["tokens"]))] = r.choice(BAD)
            if bbox_pos.get(ti) is not None:
                entries.insert(bbox_pos[ti], {"kind": "bbox", "key": "bbox", "tokens": []})
            tests.append((names[ti], entries))
        return tests
    for ntests in (1, 2, 3):
        slots = [(t, k) for t in range(ntests) for k in range(4)]
        for bad in [()] + [(sl,) for sl in slots]:
            for bt in range(ntests):
                for bp in range(5):                       # bbox before / between / after the four limits of test bt
                    s.validate_cfg(cfg_case(ntests, bad, {bt: bp}))
            s.validate_cfg(cfg_case(ntests, bad, {}))
    for _ in range(ctx.pick(200, 2000)):
        ntests = r.randint(1, 3)
        slots = [(t, k) for t in range(ntests) for k in range(4)]
        bad = tuple(r.sample(slots, r.choice([0, 1, 1, 2])))
        s.validate_cfg(cfg_case(ntests, bad, {t: r.randrange(5) for t in range(ntests) if r.random() < 0.6}))
    ctx.cov["validator_configs"] = sum(1 for e in s.events if e["ev"] == "validate_cfg")
    # creator on synthetic time-constant climatologies
    import fx_creator
    fx_creator.drive(ctx, s)
    rejects = core.validate_parallel(ctx, s.events, "Trace_Fx", "fx", session_key="none", chunk=10**9)
    by = {e["id"]: e for e in s.events}
    owned = [(by[i], cl) for i, cl in rejects]
    for e in s.events[:: max(1, len(s.events) // 6)][:6]:
        ctx.samples.append({k: e[k] for k in e if k in ("ev", "text", "tokens", "val", "ok", "exc", "accepted", "before", "after")})
    ctx.cov["distinct_nontrivial"] = len({e.get("text") for e in s.events if e["ev"] == "eval" and len(e["toks"]) >= 3})
    ctx.cov["validator_strings"] = sum(1 for e in s.events if e["ev"] == "validate")
    # binding self-test
    import tv
    cand = [e for e in s.events if e["ev"] == "eval" and e["ok"] and len(e["toks"]) >= 3]
    if cand:
        e = json.loads(json.dumps(cand[0]))
        pre = {"id": 1, "ev": "reset", "after": 0}
        e["id"], e["before"], e["after"] = 2, 0, len(e["tail"])
        e["val"] = [e["val"][0] + e["val"][1], e["val"][1]]
        bad_, _ = tv.validate([pre, e], "Trace_Fx", "C20_self")
        if not any(cl == "fx_value" for _, cl in bad_):
            raise tlc.MachineryError("binding self-test failed for Trace_Fx")
        ctx.cov["binding_selftest"] = "an eval event with its value shifted by 1 is rejected (fx_value)"

    def sig(e, cl):
        return "%s|%s|exc=%s" % (cl, e["ev"], e.get("exc", ""))

    def payload(v):
        return {"kind": "fx", "clause": v["clause"], "signature": v["sig"], "count": v["count"], "event": v["event"]}

    core.report(ctx, owned, sig, payload, lambda e, cl: json.dumps({k: e[k] for k in e if k != "toks"})[:500])
    return core.finish(ctx, "model_checking",
                       "cases are real eval_fx calls (every expression of the depth-1 grammar instance replayed from TLC's state dump, "
                       "random expressions to depth 4 with random rational statistics, failed parses and invalid identifiers "
                       "interleaved, the module-level stack never cleared inside a session), QcVariableConfig validations of all token "
                       "strings up to length 3/4 over a class-covering alphabet, and create_config runs on synthetic climatologies")
