"""Drive QcConfigCreator.create_config on synthetic NetCDF-3 climatologies that are constant in time."""
from __future__ import annotations

import os

import numpy as np
import pandas as pd
import xarray as xr

import tlc

NA = -999999999


def write_clim(path, lat, lon, grid, year=2001, levels=None, rng=None):
    """levels: None for a (time, lat, lon) variable; otherwise the coordinate values of a third dimension 'depth'
    (or "nocoord": the dimension has no coordinate variable).  The grid is the FIRST level by position (the one the
    creator uses); the other levels hold other numbers."""
    times = pd.to_datetime(["%d-%02d-15" % (year, m) for m in range(1, 13)])
    v = np.array([[np.nan if x == NA else float(x) for x in row] for row in grid], dtype="float64")
    coords = {"time": times, "lat": np.array(lat, dtype="float64"), "lon": np.array(lon, dtype="float64")}
    if levels is None:
        data = np.broadcast_to(v, (12,) + v.shape).copy()
        ds = xr.Dataset({"t": (("time", "lat", "lon"), data)}, coords=coords)
    else:
        nlev = 3 if levels == "nocoord" else len(levels)
        lev = [v] + [np.where(np.isnan(v), 50.0 + k, v * 3 + 17 + k) for k in range(1, nlev)]
        data = np.broadcast_to(np.stack(lev), (12, nlev) + v.shape).copy()
        if levels != "nocoord":
            coords["depth"] = np.array(levels, dtype="float64")
        ds = xr.Dataset({"t": (("time", "depth", "lat", "lon"), data)}, coords=coords)
    ds.to_netcdf(path, engine="scipy", format="NETCDF3_64BIT")


def drive(ctx, sess):
    import fx_checks
    import logging
    logging.disable(logging.CRITICAL)
    from ioos_qc.config_creator.config_creator import CreatorConfig, QcConfigCreator, QcVariableConfig
    r = ctx.rng
    wd = tlc.workdir("creator")
    atoms = ([{"k": "num", "v": v} for v in ([0, 1], [1, 1], [2, 1], [1, 2], [3, 1])] + [{"k": "stat", "s": x} for x in fx_checks.STATS])
    n_runs = 0
    n_files = 0

    def one_run(creator, lat, lon, grid, bbox, dates=None):
        nonlocal n_runs
        names = ["suspect_min", "suspect_max", "fail_min", "fail_max"]
        exprs = {nm: fx_checks.rand_expr(r, r.choice([0, 1, 2]), atoms) for nm in names}
        start = r.choice(["2020-01-01", "2020-03-10", "2020-11-20", "2021-06-01", "2019-12-15", "2020-02-29",
                          "2020-12-31", "2021-12-31", "2021-12-30", "2020-12-30"])
        days = r.choice([1, 1, 2, 10, 30, 90, 200, 364, 365])
        end = (pd.Timestamp(start) + pd.Timedelta(days=days)).strftime("%Y-%m-%d")
        if dates:
            start, end = dates
        vc = {"variable": "temp", "bbox": [float(v) for v in bbox], "start_time": start, "end_time": end,
              "tests": {"gross_range_test": {nm: fx_checks.render(exprs[nm], False) for nm in names}}}
        e = {"ev": "create", "grid": {"lat": lat, "lon": lon, "v": grid}, "bbox": bbox, "start": start, "end": end,
             "items": [], "exprs": [exprs[nm] for nm in names], "exc": ""}
        try:
            out = creator.create_config(QcVariableConfig(vc))
            sec = out["temp"]["qartod"]["gross_range_test"]
            got = {"suspect_min": sec["suspect_span"][0], "suspect_max": sec["suspect_span"][1],
                   "fail_min": sec["fail_span"][0], "fail_max": sec["fail_span"][1]}
            for nm in names:
                val, ok = fx_checks.frac_of(float(got[nm]))
                e["items"].append({"name": nm, "toks": exprs[nm], "val": val, "resid_ok": ok})
        except BaseException as ex:  # noqa: BLE001
            e["exc"] = type(ex).__name__
        sess.add(e)
        n_runs += 1

    def load(lat, lon, grid):
        nonlocal n_files
        path = os.path.join(wd, "clim_%d.nc" % n_files)
        n_files += 1
        # every third file is a 3d dataset; its levels ascend, descend, are heights below zero, or have no coordinate
        levels = None if n_files % 3 else r.choice([[0, 10, 20], [100, 50, 0], [-100, -50, -5], [2.5, 10], "nocoord"])
        write_clim(path, lat, lon, grid, levels=levels)
        dsc = {"name": "d", "file_path": path, "variables": {"temp": "t"}}
        if levels is not None:
            dsc["3d"] = "depth"
        try:
            return QcConfigCreator(CreatorConfig({"datasets": [dsc]}))
        except Exception as ex:  # noqa: BLE001
            raise tlc.MachineryError("cannot load synthetic climatology: %r" % ex)

    for g in range(ctx.pick(10, 60)):
        nlat, nlon = r.randint(2, 4), r.randint(2, 4)
        lat = sorted(r.sample(range(-3, 6), nlat))
        lon = sorted(r.sample(range(-4, 7), nlon))
        if g % 3 == 0:
            lon = sorted(r.sample(range(1, 9), nlon))       # a grid entirely east of the prime meridian
        # (a) arbitrary cells: the standard deviation is usually irrational, expressions using it are then not judged
        pool = r.choice([[0, 2], [0, 0, 4], [1, 1, 3], [0, 2, 4, NA], [2, 2, 2], [0], [0, 4, NA], [-1, 1, 3, 5]])
        grid = [[r.choice(pool) for _ in lon] for _ in lat]
        creator = load(lat, lon, grid)
        # one creator object serves several requests; every other creator gets them all for the same dates (so that only
        # the bounding box tells the requests apart)
        same_dates = ("2020-03-10", "2020-04-09") if g % 2 else None
        # date ranges at the seams of the calendar: one day on New Year's Eve (leap and common year), a whole year,
        # the leap day, a range ending on Jan 1
        seams = [("2020-12-31", "2021-01-01"), ("2021-12-31", "2022-01-01"), ("2021-01-01", "2022-01-01"),
                 ("2020-02-29", "2020-03-01"), ("2020-12-01", "2021-01-01"), ("2019-12-31", "2020-12-30")]
        for b in range(ctx.pick(4, 10)):
            x1, x2 = sorted([r.choice(lon) + r.choice([0, 0, -1]), r.choice(lon) + r.choice([0, 0, 1])])
            y1, y2 = sorted([r.choice(lat) + r.choice([0, 0, -1]), r.choice(lat) + r.choice([0, 0, 1])])
            one_run(creator, lat, lon, grid, [x1, y1, x2, y2], dates=same_dates or (seams[(g + b) % len(seams)] if b < 2 else None))
        # (a') boxes that hold no data cell: between two grid lines, or a few degrees off the grid on one side (also west of
        #      the prime meridian with the data to the east): the creator grows them by half a degree per side until they do
        for b in range(ctx.pick(3, 8)):
            gx, gy = r.choice(lon), r.choice(lat)
            kind = r.choice(["west", "east", "south", "north", "between", "west0"])
            d = r.choice([1, 2, 3])
            if kind == "west0":
                x2 = min(-1, min(lon) - 1)            # a box west of the prime meridian, the data to its east
                box = [x2 - 1, gy, x2, gy]
            elif kind == "west":
                box = [min(lon) - d - 1, gy, min(lon) - d, gy]
            elif kind == "east":
                box = [max(lon) + d, gy, max(lon) + d + 1, gy]
            elif kind == "south":
                box = [gx, min(lat) - d - 1, gx, min(lat) - d]
            elif kind == "north":
                box = [gx, max(lat) + d, gx, max(lat) + d + 1]
            else:
                gaps = [(a, c) for a, c in zip(lon, lon[1:]) if c - a >= 2]
                if not gaps:
                    continue
                a, c = r.choice(gaps)
                box = [a + 1, gy, c - 1, gy] if c - a >= 3 else [a + 0.5, gy, a + 0.5, gy]
                if box[0] != int(box[0]):
                    continue
            one_run(creator, lat, lon, grid, [int(v) for v in box], dates=same_dates)
        # (b) cells chosen for the box: half a, half a + 2k inside it (an odd cell is left without data), so that the
        #     population standard deviation is exactly k and every expression can be judged; outside cells are arbitrary
        for b in range(ctx.pick(4, 10)):
            x1, x2 = sorted([r.choice(lon), r.choice(lon)])
            y1, y2 = sorted([r.choice(lat), r.choice(lat)])
            inside = [(i, j) for i in range(nlat) for j in range(nlon) if y1 <= lat[i] <= y2 and x1 <= lon[j] <= x2]
            base, k = r.randint(-3, 4), r.choice([0, 1, 2, 3])
            g2 = [[r.choice([-7, 9, 11, NA]) for _ in lon] for _ in lat]
            r.shuffle(inside)
            if len(inside) % 2 and len(inside) > 1:
                i, j = inside.pop()
                g2[i][j] = NA
            for n_, (i, j) in enumerate(inside):
                g2[i][j] = base + (2 * k if (n_ % 2 and len(inside) > 1) else 0)
            one_run(load(lat, lon, g2), lat, lon, g2, [x1, y1, x2, y2])
    ctx.cov["creator_runs"] = n_runs
