"""Drive QcConfigCreator.create_config on synthetic NetCDF-3 climatologies that are constant in time."""
from __future__ import annotations

import os

import numpy as np
import pandas as pd
import xarray as xr

import tlc

NA = -999999999


def write_clim(path, lat, lon, grid, year=2001):
    times = pd.to_datetime(["%d-%02d-15" % (year, m) for m in range(1, 13)])
    v = np.array([[np.nan if x == NA else float(x) for x in row] for row in grid], dtype="float64")
    data = np.broadcast_to(v, (12,) + v.shape).copy()
    ds = xr.Dataset({"t": (("time", "lat", "lon"), data)},
                    coords={"time": times, "lat": np.array(lat, dtype="float64"), "lon": np.array(lon, dtype="float64")})
    ds.to_netcdf(path, engine="scipy", format="NETCDF3_64BIT")


def drive(ctx, sess):
    import fx_checks
    import logging
    logging.disable(logging.CRITICAL)
    from ioos_qc.config_creator.config_creator import CreatorConfig, QcConfigCreator, QcVariableConfig
    r = ctx.rng
    wd = tlc.workdir("creator")
    atoms = ([{"k": "num", "v": v} for v in ([0, 1], [1, 1], [2, 1], [1, 2], [3, 1])] + [{"k": "stat", "s": x} for x in fx_checks.STATS])
    n_runs = 0
    for g in range(ctx.pick(10, 60)):
        nlat, nlon = r.randint(2, 4), r.randint(2, 4)
        lat = sorted(r.sample(range(-3, 6), nlat))
        lon = sorted(r.sample(range(-4, 7), nlon))
        pool = r.choice([[0, 2], [0, 0, 4], [1, 1, 3], [0, 2, 4, NA], [2, 2, 2], [0], [0, 4, NA], [-1, 1, 3, 5]])
        grid = [[r.choice(pool) for _ in lon] for _ in lat]
        path = os.path.join(wd, "clim_%d.nc" % g)
        write_clim(path, lat, lon, grid)
        try:
            creator = QcConfigCreator(CreatorConfig({"datasets": [{"name": "d", "file_path": path, "variables": {"temp": "t"}}]}))
        except Exception as ex:  # noqa: BLE001
            raise tlc.MachineryError("cannot load synthetic climatology: %r" % ex)
        for b in range(ctx.pick(8, 20)):
            x1, x2 = sorted([r.choice(lon) + r.choice([0, 0, -1]), r.choice(lon) + r.choice([0, 0, 1])])
            y1, y2 = sorted([r.choice(lat) + r.choice([0, 0, -1]), r.choice(lat) + r.choice([0, 0, 1])])
            bbox = [x1, y1, x2, y2]
            names = ["suspect_min", "suspect_max", "fail_min", "fail_max"]
            exprs = {nm: fx_checks.rand_expr(r, r.choice([0, 1, 2]), atoms) for nm in names}
            start = r.choice(["2020-01-01", "2020-03-10", "2020-11-20", "2021-06-01", "2019-12-15"])
            days = r.choice([1, 10, 30, 90, 200, 364])
            end = (pd.Timestamp(start) + pd.Timedelta(days=days)).strftime("%Y-%m-%d")
            vc = {"variable": "temp", "bbox": [float(v) for v in bbox], "start_time": start, "end_time": end,
                  "tests": {"gross_range_test": {nm: fx_checks.render(exprs[nm], False) for nm in names}}}
            e = {"ev": "create", "grid": {"lat": lat, "lon": lon, "v": grid}, "bbox": bbox, "start": start, "end": end,
                 "items": [], "exprs": [exprs[nm] for nm in names], "exc": ""}
            try:
                out = creator.create_config(QcVariableConfig(vc))
                sec = out["temp"]["qartod"]["gross_range_test"]
                got = {"suspect_min": sec["suspect_span"][0], "suspect_max": sec["suspect_span"][1],
                       "fail_min": sec["fail_span"][0], "fail_max": sec["fail_span"][1]}
                for nm in names:
                    val, ok = fx_checks.frac_of(float(got[nm]))
                    e["items"].append({"name": nm, "toks": exprs[nm], "val": val, "resid_ok": ok})
            except BaseException as ex:  # noqa: BLE001
                e["exc"] = type(ex).__name__
            sess.add(e)
            n_runs += 1
    ctx.cov["creator_runs"] = n_runs
