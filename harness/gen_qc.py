"""Random (seeded) sessions of abstract QC calls: a base call plus derived calls (QcSession relations).

Everything here stays inside the quantifier domains of the properties (strictly increasing whole-second
time axes, regular axes for flat_line, admissible parameter shapes). The judgement of what the real
functions return for these calls is made by TLC (spec/Trace_Qc.tla), never here.
"""
from __future__ import annotations

import copy
import random

from geo import GEO_PTS, NA, hops

THR = [[], [0, 1], [1, 2], [1, 1], [3, 2], [2, 1], [3, 1], [5, 1]]
STEPS = [1, 30, 60, 900, 3600, 86400, 259200]
PERIODS = ["year", "month", "day", "dayofyear", "dayofweek", "quarter", "week", "weekofyear", "hour"]
PERIOD_RANGE = {"year": (2018, 2022), "month": (1, 12), "day": (1, 31), "dayofyear": (1, 366),
                "dayofweek": (0, 6), "quarter": (1, 4), "week": (1, 53), "weekofyear": (1, 53), "hour": (0, 23)}
# edge dates called out by C08 (epoch days): Dec 29 .. Jan 4 around 2019/20/21, Feb 28/29, Mar 1
EDGE_DAYS = ([17894 + d for d in range(-3, 5)] + [18262 + d for d in range(-3, 5)] +
             [18628 + d for d in range(-3, 5)] + [18320, 18321, 18322, 17955, 17956, 18686, 18687])


def mk(fn, x=(), t=(), z=(), lon=(), lat=(), p=None):
    lon, lat = list(lon), list(lat)
    return {"fn": fn, "x": list(x), "t": list(t), "z": list(z), "lon": lon, "lat": lat,
            "hop": hops(lon, lat) if fn in ("loc", "speed") else [], "p": p or {}}


class Gen:
    def __init__(self, seed, size=12):
        self.r = random.Random(seed)
        self.size = size

    # ------------------------------------------------------------------ series / axes
    def length(self, lo=0):
        r = self.r
        if r.random() < 0.35:
            return r.randint(lo, 4)
        return r.randint(lo, self.size)

    def series(self, n, pm=None, lo=-6, hi=6):
        r = self.r
        if pm is None:
            pm = r.choice([0, 0, 0.1, 0.3, 0.6])
        style = r.choice(["noise", "plateau", "ramp", "spike", "small"])
        out = []
        v = r.randint(lo, hi)
        for i in range(n):
            if style == "noise":
                v = r.randint(lo, hi)
            elif style == "plateau":
                if r.random() < 0.3:
                    v = r.randint(lo, hi)
            elif style == "ramp":
                v = v + r.choice([1, 1, 1, 2, 0, -1])
            elif style == "spike":
                v = r.choice([0, 0, 0, 1, r.randint(lo, hi)])
            else:
                v = r.choice([0, 1, 2])
            out.append(NA if r.random() < pm else v)
        return out

    def axis(self, n, regular=None):
        r = self.r
        if regular is None:
            regular = r.random() < 0.5
        t0 = r.choice([0, 0, 17, 86399, 3600 * 5])
        if regular:
            d = r.choice(STEPS[:6])
            return [t0 + i * d for i in range(n)]
        out, t = [], t0
        pool = r.choice([STEPS, STEPS[:3], [60, 120, 180], [1, 2, 3]])
        for _ in range(n):
            out.append(t)
            t += r.choice(pool)
        return out

    def positions(self, n):
        r = self.r
        lon, lat = [], []
        mode = r.choice(["named", "named", "random", "mixed"])
        for _ in range(n):
            if mode == "named" or (mode == "mixed" and r.random() < 0.5):
                a, b = r.choice(GEO_PTS)
            else:
                a, b = r.randint(-360, 360), r.randint(-180, 180)
            pm = r.random()
            if pm < 0.08:
                a = NA
            elif pm < 0.16:
                b = NA
            elif pm < 0.22:
                a = b = NA
            lon.append(a)
            lat.append(b)
        return lon, lat

    # ------------------------------------------------------------------ base calls
    def gross(self):
        r = self.r
        g = sorted(r.randint(-6, 6) for _ in range(4))
        fail = [g[0], g[3]]
        susp = [g[1], g[2]] if r.random() < 0.7 else []
        if r.random() < 0.1 and susp:
            susp = [g[0] - r.randint(0, 1), g[2] + r.choice([0, 9])]  # possibly outside -> rejected
        if r.random() < 0.3:
            fail.reverse()
        if susp and r.random() < 0.3:
            susp.reverse()
        return mk("gross", x=self.series(self.length(), lo=-8, hi=8), p={"fail": fail, "susp": susp})

    def valid(self):
        r = self.r
        kind = r.choice(["num", "num", "time"])
        lo, hi = sorted([r.randint(-4, 4), r.randint(-4, 4)])
        if r.random() < 0.2:
            lo = NA
        if r.random() < 0.2:
            hi = NA
        x = self.series(self.length(), lo=-6, hi=6)
        return mk("valid", x=x, p={"lo": lo, "hi": hi, "sincl": r.random() < 0.5, "eincl": r.random() < 0.5,
                                   "kind": kind})

    def spike(self):
        r = self.r
        m = "average" if r.random() < 0.5 else "differential"
        if r.random() < 0.05:
            m = r.choice(["bogus", "Average", "DIFFERENTIAL", "avg", "diff", "average ", ""])     # exactly the two names
        return mk("spike", x=self.series(self.length()), p={"st": r.choice(THR), "ft": r.choice(THR), "method": m})

    def roc(self):
        r = self.r
        n = self.length()
        x, t = self.series(n), self.axis(n)
        thr = r.choice([[0, 1], [1, 60], [1, 30], [1, 1], [2, 1], [1, 3600], [1, 86400]])
        cands = [(abs(x[i] - x[i - 1]), t[i] - t[i - 1]) for i in range(1, n) if NA not in (x[i], x[i - 1])]
        if cands and r.random() < 0.6:
            a, dt = r.choice(cands)       # exactly on / next to an occurring rate
            thr = [max(0, a + r.choice([0, 0, 1, -1])), dt]
        if 2 <= n <= 4 and r.random() < 0.12:
            # a slow drift: steps of hundreds of days, a threshold of a few 1e-9 per second -- rates that differ from
            # the threshold by less than any absolute tolerance a comparison might use (values kept small: 32-bit TLC)
            step = r.choice([86400 * 400, 86400 * 250])          # (chosen once: the axis must stay increasing)
            t = [t[0] % 100 + i * step for i in range(n)]
            x = [v if v == NA else abs(v) % 4 for v in x]
            thr = [1, r.choice([20000000, 10000000, 5000000])]      # (dx * denominator must stay below 2^31 also for derived calls)
        c = mk("roc", x=x, t=t, p={"thr": thr})
        if r.random() < 0.06:             # mismatched lengths are rejected
            k = r.randint(0, n + 2)
            if k != n:
                c["t"] = self.axis(k)
        return c

    def flat(self):
        r = self.r
        n = self.length()
        d = r.choice([1, 60, 900])
        t0 = r.choice([0, 7])
        t = [t0 + i * d for i in range(n)]
        durs = [d // 2, d, 3 * d // 2, 2 * d, 3 * d, 4 * d, max(n - 1, 0) * d, n * d, (n + 1) * d]
        x = self.series(n, lo=-3, hi=3)
        return mk("flat", x=x, t=t, p={"st": r.choice(durs), "ft": r.choice(durs),
                                       "tol": r.choice([[0, 1], [1, 2], [1, 1], [2, 1], [5, 1]])})

    def att(self):
        r = self.r
        kind = r.choice(["std", "range"])
        if r.random() < 0.03:
            kind = "bogus"
        windowed = r.random() < 0.7
        regular = r.random() < 0.6
        n = self.length(lo=1)        # (the empty series is exercised by the C01 driver)
        if kind == "bogus" and r.random() < 0.3:
            n = 0                     # an unknown check_type is rejected whatever the series, also an empty one
        t = self.axis(n, regular=regular)
        gappy = False
        if windowed and not regular and n >= 5 and r.random() < 0.5:
            # a regular cadence interrupted by a few outages: "the sampling step" is unambiguously the cadence
            # (= the median step), while the mean step is much larger
            d0 = r.choice([60, 600, 3600])
            t, cur = [], r.choice([0, 17])
            gaps = set(r.sample(range(1, n), min((n - 1) // 2 - 1, r.randint(1, 2)))) if (n - 1) // 2 - 1 >= 1 else set()
            for i in range(n):
                t.append(cur)
                cur += d0 * (r.choice([8, 25]) if (i + 1) in gaps else 1)
            gappy = True
        alternating = False
        if windowed and not gappy and n >= 5 and n % 2 == 1 and r.random() < 0.25:
            # two step lengths in turn, an even number of steps: the median step falls between two whole seconds
            # (the code truncates it: 1.5 s -> 1 s)
            a, b = r.choice([(1, 2), (2, 3), (2, 1), (60, 61), (3, 6)])
            t, cur = [], r.choice([0, 5])
            for i in range(n):
                t.append(cur)
                cur += a if i % 2 == 0 else b
            alternating = True
        p = {"st": r.choice(THR[1:]), "ft": r.choice(THR[1:]), "period": NA, "minobs": NA, "minperiod": NA,
             "kind": kind}
        if windowed:
            d = (t[1] - t[0]) if n >= 2 else 60
            p["period"] = max(1, r.choice([d, 2 * d, 3 * d, (5 * d) // 2, d // 2 + 1, 4 * d]))
            w = r.random()
            if w < 0.35:
                p["minobs"] = r.choice([1, 2, 3, 4])
            elif w < 0.6 and regular and n >= 2:
                p["minperiod"] = r.choice([d, 2 * d, 3 * d, d + d // 2])
            elif gappy:
                p["minobs"] = NA
                p["minperiod"] = r.choice([d, 2 * d, 3 * d])
                p["period"] = r.choice([2 * d, 3 * d, 4 * d])
            if alternating:
                s2 = (t[1] - t[0]) + (t[2] - t[1])
                p["minobs"] = NA
                p["minperiod"] = r.choice([s2 // 2 * 2, s2 // 2 * 3, s2, s2 + 1, 2 * s2])
                p["period"] = r.choice([s2, 2 * s2, 2 * s2 + 1, 3 * s2])
        x = self.series(n, lo=-3, hi=3)
        pres = [v for v in x if v != NA]
        if kind == "range" and len(pres) >= 2 and r.random() < 0.5:
            # a threshold exactly equal to an occurring spread (max - min of a run of present values)
            i = r.randrange(len(pres) - 1)
            j = r.randint(i + 1, len(pres) - 1)
            sp = max(pres[i:j + 1]) - min(pres[i:j + 1])
            p[r.choice(["st", "ft"])] = [sp, 1]
        return mk("att", x=x, t=t, p=p)

    def dens(self):
        r = self.r
        n = self.length()
        style = r.choice(["down", "up", "downup", "flat", "rand"])
        z, v = [], r.randint(0, 3)
        for i in range(n):
            if style == "down":
                v += r.choice([1, 1, 2, 0])
            elif style == "up":
                v -= r.choice([1, 1, 2, 0])
            elif style == "downup":
                v += r.choice([1, 2]) if i < n // 2 else -r.choice([1, 2])
            elif style == "rand":
                v = r.randint(0, 5)
            z.append(NA if r.random() < 0.1 else v)
        thr = [[], [-2, 1], [-1, 1], [-1, 2], [0, 1], [1, 2]]
        c = mk("dens", x=self.series(n, lo=-3, hi=3), z=z, p={"st": r.choice(thr), "ft": r.choice(thr)})
        if r.random() < 0.04:
            c["z"] = c["z"][:-1] if n else [0]
        return c

    def press(self):
        r = self.r
        n = self.length()
        pm = r.choice([0, 0, 0, 0.15])
        return mk("press", x=self.series(n, pm=pm), p={"none": 0})

    def loc(self):
        r = self.r
        n = self.length()
        lon, lat = self.positions(n)
        if n >= 2 and r.random() < 0.2:
            # a fix repeated (a platform that did not move), often the first one
            for i in ([1] if r.random() < 0.5 else r.sample(range(1, n), max(1, n // 4))):
                lon[i], lat[i] = lon[i - 1], lat[i - 1]
        # (the last two: upper edge below the lower one -- nothing is inside such a box)
        bbox = r.choice([[], [], [0, 0, 2, 2], [-10, -10, 10, 10], [-360, -180, 360, 180], [1, 1, 1, 1],
                         [340, -20, -340, 20], [-10, 10, 10, -10]])
        if r.random() < 0.04:
            bbox = r.choice([[0, 0, 2], [0, 0, 2, 2, 2], [0]])
        hp = [h for h in hops(lon, lat) if h not in (NA, 0)]
        rmax = r.choice([[], [], [0, 1], [100000000, 1]])
        if hp and r.random() < 0.6:
            # (0 / +1: the whole metres just below and just above the hop -- on hops of thousands of kilometres that is
            # a relative difference of 1e-7, lost by anything that carries the distance in single precision)
            rmax = [max(0, r.choice(hp) + r.choice([-50, 50, -5000, 5000, 0, 1, 0, 1])), 1]
        c = mk("loc", lon=lon, lat=lat, p={"bbox": bbox, "rmax": rmax, "shapes": "same"})
        if n >= 2 and r.random() < 0.04:
            c["p"]["shapes"] = "differ"      # same number of elements, different shapes: rejected
        if r.random() < 0.04:
            c["lat"] = c["lat"][:-1] if n else [0]
            c["hop"] = hops(c["lon"], c["lat"])
        return c

    def speed(self):
        r = self.r
        n = self.length()
        lon, lat = self.positions(n)
        t = self.axis(n)
        if n >= 2 and r.random() < 0.3:
            # a fix repeated: the platform did not move, the speed is exactly 0 -- the one speed that can sit exactly
            # on a threshold (0), with the other threshold below it
            for i in r.sample(range(1, n), max(1, n // 4)):
                lon[i], lat[i] = lon[i - 1], lat[i - 1]
        h = hops(lon, lat)
        sp = [h[i] // (t[i] - t[i - 1]) for i in range(1, n) if h[i] != NA]
        pool = [0, 0, 1, 3, 10, 100, 2000, -1]
        for s in sp:
            pool += [min(s, 2000), min(s + 1, 2000)]
        c = mk("speed", lon=lon, lat=lat, t=t, p={"st": [r.choice(pool), 1], "ft": [r.choice(pool), 1]})
        if r.random() < 0.05:
            k = r.randint(0, n + 1)
            if k != n:
                c["t"] = self.axis(k)
        return c

    def member(self, absolute_only=False):
        r = self.r
        period = "" if (absolute_only or r.random() < 0.35) else r.choice(PERIODS)
        if period == "":
            a, b = r.choice(EDGE_DAYS), r.choice(EDGE_DAYS)
            tspan = [a * 86400 + r.choice([0, 0, 43200]), b * 86400 + r.choice([0, 86399, 43200])]
        else:
            lo, hi = PERIOD_RANGE[period]
            tspan = [r.randint(lo, hi), r.randint(lo, hi)]
        g = sorted(r.randint(-5, 5) for _ in range(4))
        vspan, fspan = [g[1], g[2]], ([g[0], g[3]] if r.random() < 0.6 else [])
        if fspan and r.random() < 0.3:
            # nothing makes the fail span contain the valid span: narrower than it, overlapping it, disjoint from it
            fspan = sorted(r.randint(-5, 5) for _ in range(2))
        if r.random() < 0.3:
            vspan.reverse()
        zspan = []
        if r.random() < 0.5:
            zspan = [r.choice([0, 5, 10]), r.choice([5, 10, 20])]
        return {"tspan": tspan, "vspan": vspan, "fspan": fspan, "zspan": zspan, "period": period}

    def clim(self, absolute_only=False):
        r = self.r
        n = self.length()
        days = sorted(r.choice(EDGE_DAYS) if r.random() < 0.7 else r.randint(17532, 19358) for _ in range(n))
        t, last = [], -1
        for d in days:
            s = d * 86400 + r.choice([0, 0, 1, 43200, 86399])
            if s <= last:
                s = last + r.choice([1, 3600])
            t.append(s)
            last = s
        if n >= 2 and r.random() < 0.2:
            # observations that are not in time order (newest first, shuffled, a stamp repeated): the test is point-wise
            mode = r.choice(["rev", "shuf", "dup"])
            if mode == "rev":
                t.reverse()
            elif mode == "shuf":
                r.shuffle(t)
            else:
                i = r.randrange(1, n)
                t[i] = t[i - 1]
        zmode = r.choice(["none", "present", "present", "some", "allmissing"])
        if zmode == "none":
            z = []
        else:
            z = [NA if (zmode == "allmissing" or (zmode == "some" and r.random() < 0.4))
                 else r.choice([0, 5, 10, 15, 20, 25]) for _ in range(n)]
        members = [self.member(absolute_only) for _ in range(r.choice([0, 1, 1, 2, 2, 3]))]
        if len(members) >= 2 and r.random() < 0.2:
            # the first member once more at the end (A, B, A): the last matching member decides, so the repeat counts
            members.append(copy.deepcopy(members[0]))
        return mk("clim", x=self.series(n, lo=-6, hi=6), t=t, z=z, p={"members": members})

    def base(self, fn):
        for _ in range(20):
            try:
                return getattr(self, fn)()
            except ValueError:      # a random position pair landed within 1e-3 of a whole metre
                continue
        raise RuntimeError("cannot generate " + fn)

    # ------------------------------------------------------------------ derived calls
    def tighten_opt_upper(self, q):
        r = self.r
        if not q:
            return r.choice([[], r.choice(THR[1:])])
        num, den = q
        k = r.choice([1, 1, 2])
        return [max(0, num * k - r.choice([0, 1, k])), den * k]

    def shrink(self, s):
        """a span nested in s (either order kept)"""
        r = self.r
        lo, hi = min(s), max(s)
        a = r.randint(lo, hi)
        b = r.randint(a, hi)
        out = [a, b]
        if r.random() < 0.3:
            out.reverse()
        return out

    def tighten(self, c):
        r = self.r
        d = copy.deepcopy(c)
        p, fn = d["p"], c["fn"]
        if fn == "gross":
            f = sorted(p["fail"])
            if p["susp"]:
                sp = self.shrink(p["susp"])
            elif r.random() < 0.5:
                sp = self.shrink(f)
            else:
                sp = []
            if sp:
                nf = [r.randint(f[0], max(f[0], min(min(sp), f[1]))), r.randint(min(max(max(sp), f[0]), f[1]), f[1])]
            else:
                nf = self.shrink(f)
            if r.random() < 0.3:
                nf.reverse()
            p["fail"], p["susp"] = nf, sp
        elif fn == "valid":
            if p["lo"] != NA:
                p["lo"] += r.choice([0, 1, 2])
            elif r.random() < 0.3:
                p["lo"] = r.randint(-4, 4)
            if p["hi"] != NA:
                p["hi"] -= r.choice([0, 1, 2])
            elif r.random() < 0.3:
                p["hi"] = r.randint(-4, 4)
        elif fn == "clim":
            for m in p["members"]:
                m["vspan"] = self.shrink(m["vspan"])
                if m["fspan"]:
                    f = self.shrink(m["fspan"])
                    m["fspan"] = f
                elif r.random() < 0.4:
                    m["fspan"] = self.shrink([-5, 5])
        elif fn == "loc":
            b = p["bbox"] if len(p["bbox"]) == 4 else [-360, -180, 360, 180]
            if b[0] > b[2] or b[1] > b[3]:
                b = None            # nothing is inside this box already: it stays as it is
            x1 = r.randint(b[0], b[2]) if b else 0
            x2 = r.randint(x1, b[2]) if b else 0
            y1 = r.randint(b[1], b[3]) if b else 0
            y2 = r.randint(y1, b[3]) if b else 0
            if b and r.random() < 0.5:
                p["bbox"] = [x1, y1, x2, y2] if r.random() < 0.7 else [b[0], b[1], b[2], b[3]]
                if r.random() < 0.2 and x1 < x2:
                    p["bbox"] = [x2, y1, x1, y2]     # tightened past the other edge: an empty box is nested in any box
            if p["rmax"]:
                p["rmax"] = [max(0, p["rmax"][0] - r.choice([0, 1, 100, 100000])), 1]
            elif r.random() < 0.5:
                p["rmax"] = [r.choice([0, 1000, 111000, 200000]), 1]
        elif fn == "spike":
            p["st"] = self.tighten_opt_upper(p["st"])
            p["ft"] = self.tighten_opt_upper(p["ft"])
        elif fn == "roc":
            p["thr"] = self.tighten_opt_upper(p["thr"])
        elif fn == "speed":
            # never below 0 -- unless the threshold already is
            p["st"] = [max(min(p["st"][0], 0), p["st"][0] - r.choice([0, 1, 5, 100])), 1]
            p["ft"] = [max(min(p["ft"][0], 0), p["ft"][0] - r.choice([0, 1, 5, 100])), 1]
        elif fn == "flat":
            dd = (c["t"][1] - c["t"][0]) if len(c["t"]) >= 2 else 1
            p["st"] = max(0, p["st"] - r.choice([0, 1, dd, 2 * dd]))
            p["ft"] = max(0, p["ft"] - r.choice([0, 1, dd, 2 * dd]))
            p["tol"] = [p["tol"][0] + r.choice([0, 1, 2]), p["tol"][1]]
        elif fn == "att":
            p["st"] = [p["st"][0] + r.choice([0, 1, 2]), p["st"][1]]
            p["ft"] = [p["ft"][0] + r.choice([0, 1, 2]), p["ft"][1]]
            pres = [v for v in c["x"] if v != NA]
            if p["kind"] == "range" and len(pres) >= 2 and r.random() < 0.5:
                # tighten a threshold exactly onto an occurring spread
                i = r.randrange(len(pres) - 1)
                j = r.randint(i + 1, len(pres) - 1)
                sp = max(pres[i:j + 1]) - min(pres[i:j + 1])
                for key in ("ft", "st"):
                    if sp * c["p"][key][1] >= c["p"][key][0] and r.random() < 0.6:
                        p[key] = [sp, 1]
        elif fn == "dens":
            for k in ("st", "ft"):
                if p[k]:
                    p[k] = [p[k][0] + r.choice([0, 1, 2, 3, 5]), p[k][1]]      # (also across zero, to a larger magnitude)
                elif r.random() < 0.5:
                    p[k] = r.choice([[-2, 1], [-1, 1], [0, 1], [1, 2], [3, 1]])
        return d

    def derive(self, c, kind):
        """-> (rel, call) or None when the relation does not apply to this call"""
        r = self.r
        fn = c["fn"]
        d = copy.deepcopy(c)
        rel = {"kind": kind, "i": 0, "k": 0}
        add = lambda s, k: [v if v == NA else v + k for v in s]  # noqa: E731
        n = len(c["lon"]) if fn in ("loc", "speed") else len(c["x"])
        if kind == "recall":
            return rel, d
        if kind == "tighten":
            if fn == "press" or (fn == "loc" and len(c["p"]["bbox"]) not in (0, 4)):
                return None
            return rel, self.tighten(c)
        if kind == "shiftv":
            if fn not in ("spike", "roc", "flat", "att", "dens"):
                return None
            rel["k"] = r.choice([1, -1, 7, 100, -64, 1000])
            if fn != "att" and r.random() < 0.3:
                # a large offset (exact in float64): a rule that looks at the value's magnitude (relative tolerances,
                # float32 round trips) shows only when |value| is many orders of magnitude above the differences
                rel["k"] = r.choice([2 ** 20, -(2 ** 21)])
            d["x"] = add(c["x"], rel["k"])
            return rel, d
        if kind == "negate":
            if fn not in ("spike", "roc", "flat", "att"):
                return None
            d["x"] = [v if v == NA else -v for v in c["x"]]
            return rel, d
        if kind == "shiftt":
            if fn == "clim":
                if any(m["period"] != "" for m in c["p"]["members"]):
                    return None
                rel["k"] = r.choice([1, 3600, 86400, 86400 * 366, -86400 * 365, 12345])
                for m in d["p"]["members"]:
                    m["tspan"] = add(m["tspan"], rel["k"])
            elif fn in ("roc", "flat", "att", "speed"):
                rel["k"] = r.choice([1, 37, 3600, 86400, 86400 * 365, -86400 * 300, 59])
            else:
                return None
            d["t"] = add(c["t"], rel["k"])
            return rel, d
        if kind == "shiftboth":
            if fn not in ("gross", "valid"):
                return None
            rel["k"] = r.choice([1, -1, 5, -7, 100])
            d["x"] = add(c["x"], rel["k"])
            if fn == "gross":
                d["p"]["fail"] = add(c["p"]["fail"], rel["k"])
                d["p"]["susp"] = add(c["p"]["susp"], rel["k"])
            else:
                d["p"]["lo"] = c["p"]["lo"] if c["p"]["lo"] == NA else c["p"]["lo"] + rel["k"]
                d["p"]["hi"] = c["p"]["hi"] if c["p"]["hi"] == NA else c["p"]["hi"] + rel["k"]
            return rel, d
        if kind == "reverse":
            if fn != "spike":
                return None
            d["x"] = list(reversed(c["x"]))
            return rel, d
        if kind == "mirror":
            if fn != "dens" or NA in c["x"] or NA in c["z"] or len(c["x"]) != len(c["z"]):
                return None
            d["x"], d["z"] = list(reversed(c["x"])), list(reversed(c["z"]))
            return rel, d
        if kind == "perturb":
            if n == 0 or fn == "press" or (fn == "att" and c["p"]["period"] == NA):
                return None
            i = r.randrange(n)
            rel["i"] = i + 1
            if fn in ("loc", "speed"):
                if len(c["lon"]) != len(c["lat"]):
                    return None
                a, b = r.choice(GEO_PTS) if r.random() < 0.6 else (r.randint(-360, 360), r.randint(-180, 180))
                if r.random() < 0.15:
                    a = b = NA
                d["lon"][i], d["lat"][i] = a, b
                d["hop"] = hops(d["lon"], d["lat"])
            else:
                if len(c["x"]) != n:
                    return None
                old = c["x"][i]
                new = r.choice([NA, 0, 1, -5, 9, 50, (0 if old == NA else old + 1)])
                d["x"][i] = new
            return rel, d
        raise KeyError(kind)


REL_KINDS = ["recall", "tighten", "shiftv", "negate", "shiftt", "shiftboth", "reverse", "mirror", "perturb"]
FNS = ["gross", "valid", "spike", "roc", "flat", "att", "dens", "press", "loc", "speed", "clim"]


def sessions(seed, fns, count, kinds=REL_KINDS, size=12, per_kind=1):
    """yield lists [(rel, call), ...]; first element is the base call"""
    g = Gen(seed, size=size)
    for s in range(count):
        fn = fns[s % len(fns)]
        b = g.base(fn)
        sess = [({"kind": "base", "i": 0, "k": 0}, b)]
        for k in kinds:
            for _ in range(per_kind):
                try:
                    dv = g.derive(b, k)
                except ValueError:
                    dv = None       # a perturbed position landed within 1e-3 of a whole metre: skip
                if dv is not None:
                    sess.append(dv)
        yield sess
