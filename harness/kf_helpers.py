"""Predicates used by the 'when' expressions of known_findings.jsonl (syntactic helpers only)."""
import re


def sanitize(s):
    return re.sub(r"[^_a-zA-Z0-9]", "_", s)


def sanitized_collision(e):
    """two distinct stream ids of the run have the same CF-sanitised form"""
    ids = sorted(e.get("table", {}).get("data", {}))
    forms = [sanitize(i) for i in ids]
    return len(set(forms)) < len(forms)
