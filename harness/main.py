"""Entry point: ./vcheck <property> [--tier quick|thorough] | --replay <file> | selftest"""
from __future__ import annotations

import argparse
import os
import sys
import traceback

sys.path.insert(0, os.path.dirname(os.path.abspath(__file__)))

import core  # noqa: E402
import tlc  # noqa: E402


def dispatch(prop):
    import qc_checks
    if prop in qc_checks.PLAN:
        return qc_checks.check
    import importlib
    for modname in ("agg_checks", "pipe_checks", "config_checks", "fx_checks", "store_checks"):
        try:
            mod = importlib.import_module(modname)
        except ImportError:
            continue
        if prop in getattr(mod, "PROPS", ()):
            return mod.check
    raise SystemExit("unknown property %s" % prop)


def main():
    ap = argparse.ArgumentParser()
    ap.add_argument("prop", nargs="?")
    ap.add_argument("--tier", default=os.environ.get("VERIF_TIER", "quick"), choices=["quick", "thorough"])
    ap.add_argument("--replay")
    a = ap.parse_args()
    seed = int(os.environ.get("VERIF_SEED", "20261002"))
    try:
        if a.replay:
            import replay
            sys.exit(replay.run(a.replay))
        if a.prop == "extra":
            import extra_checks
            sys.exit(extra_checks.run())
        if a.prop == "selftest":
            import selftest
            sys.exit(selftest.run())
        ctx = core.Ctx(a.prop, a.tier, seed)
        rc = dispatch(a.prop)(ctx)
        sys.exit(rc)
    except tlc.MachineryError as ex:
        print("MACHINERY-ERROR: %s" % ex)
        sys.exit(2)
    except SystemExit:
        raise
    except BaseException:
        traceback.print_exc()
        print("MACHINERY-ERROR: unexpected exception in the harness")
        sys.exit(2)


if __name__ == "__main__":
    main()
