"""Regenerates /verif/MANIFEST.json (kept valid at all times)."""
import json
import os

VERIF = os.path.dirname(os.path.dirname(os.path.abspath(__file__)))

TECH = "explicit TLA+ spec + TLC model checking + trace validation / behaviour replay against the real code"

CHECKS = {
    "C01": ("QcTests/QcSession", "TLC enumerates every base call of the 11 QC functions on short series (incl. empty) and the 'recall' step; the dumped states and seeded random sessions are executed on the real functions and every call is validated by Trace_Qc (totality, shape, alphabet, no mask, arguments unchanged, repeatability)"),
    "C02": ("QcTests/QcSession", "InvC02 model-checked over all missing placements of the bounded instance; every dumped state executed and the logged flags checked by the independent C02Holds clause of Trace_Qc"),
    "C03": ("QcTests/QcSession", "gross_range / valid_range rules over all span pairs of a grid x every value position x four inclusivity settings; replayed and trace-validated"),
    "C04": ("Aggregate", "pointwise laws checked COMPLETELY over all 2^8 entry sets (aggregating aggregates, never-better, non-flags ignored: valid for any number and length of vectors); session laws (permutation, duplication, grouping, 5x5 table) model-checked on all entry multisets; every state replayed into qartod_compare / aggregate / PandasStore.compute_aggregate with junk under masks"),
    "C05": ("Pipeline", "every table x window layout x entry placement of MC_Pipeline replayed through all stream front ends; each yield validated against Pipeline!Yields by Trace_Pipeline"),
    "C06": ("Pipeline", "TLC explores every collect order (InvC06, InvC06Prefix); real collect_results fed permutations and prefixes of real ContextResults and validated step by step"),
    "C08": ("QcTests/Calendar", "climatology rule with a TLA+ calendar over every period kind on edge dates; member grids enumerated by TLC, replayed, plus random member lists"),
    "C09": ("QcTests/QcSession", "spike rule over all series <= 4..5 points over {0,1,2,5,missing} x all threshold pairs x both methods; replayed and trace-validated; reverse symmetry"),
    "C10": ("QcTests/QcSession", "rate_of_change / speed rules over irregular whole-second axes, thresholds exactly on occurring rates, named geodesic points; replayed and trace-validated"),
    "C11": ("QcTests/QcSession", "flat_line rule over lengths 0..5, steps {1,60}, durations incl. non-multiples / longer than the series, tolerances on both sides; replayed and trace-validated"),
    "C12": ("QcTests/QcSession", "attenuated_signal rule (whole series and trailing window, std via exact integer variance comparison, min_obs / min_period) enumerated, replayed and trace-validated"),
    "C13": ("QcTests/QcSession", "density_inversion / pressure_increasing rules over all short profiles incl. missing; mirror relation model-checked and checked on recorded pairs"),
    "C14": ("QcTests/QcSession", "location rule over tracks of named geodesic points, partial/fully missing positions, boxes with edge points, range_max between table values"),
    "C15": ("QcTests/QcSession", "carrier is not part of the abstract call: every test executed under every data / auxiliary / time carrier as a 'recall' of the base-carrier call and validated by Trace_Qc"),
    "C16": ("QcTests/QcSession", "InvRel(tighten) model-checked on the rules for every (loose, strict) pair of the parameter pools; real (loose, strict) pairs validated on their logged results"),
    "C17": ("QcTests/QcSession", "InvRel for shift / negate / reverse / single-point perturbation model-checked; transformed real runs validated on logged results"),
    "C18": ("Pipeline", "InvC18 model-checked for every placement of unrunnable entries; real runs with and without the unrunnable entries compared by Trace_Pipeline"),
}

CHECKS.update({
    "C07": ("ConfigLoad", "abstract configurations enumerated by TLC (invariants: calls independent of layout / carrier, unknown names ignored); every configuration serialised in every layout x carrier that can express it and Config(source).calls validated by Trace_Config, incl. the Call.config() round trip"),
    "C19": ("Store", "FrameOK model-checked for satisfiability over CF-illegal stream ids x write flags x include / exclude lists; histories of real PandasStore objects (save / compute_aggregate / save again) and cf_safe_name outputs validated by Trace_Store, which tracks the object's state"),
    "C20": ("FxParser", "history independence and precedence of the postfix stack machine model-checked against an independent precedence-climbing semantics over exact rationals for every expression of depth <= 2; real eval_fx sessions (stack never cleared), validator decisions and create_config runs on synthetic climatologies validated by Trace_Fx"),
})
NOT_YET = {}


def main():
    checks = []
    for pid, (engine, text) in sorted(CHECKS.items()):
        checks.append({
            "property_id": pid,
            "quick_cmd": "./vcheck %s --tier quick" % pid,
            "thorough_cmd": "./vcheck %s --tier thorough" % pid,
            "evidence_file": "/verif/evidence/%s.json" % pid,
            "replay_cmd_template": "./vcheck --replay {path}",
            "engine": engine,
            "level_claimed": {"category": "model_checking", "text": text, "design_ref": "DESIGN.md section 5 (%s)" % pid},
            "level_note": "bounded: TLC is exhaustive only within the instance's constants; the binding to the code is by executing "
                          "the model's states and seeded random cases on /repo's working tree and validating every recorded event "
                          "with TLC; trusted base: TLC, numpy/pandas, geographiclib (distances), the harness' concretisation maps",
            "technique": TECH,
        })
    man = {
        "version": 1,
        "setup_cmd": "./setup.sh",
        "hooks": {"guard": "IOOS_QC_VERIF", "enable": "none needed: all observation points are public return values or attributes reachable from outside (probe tests registered at run time, Call.run wrapped by the harness)",
                  "baseline_off_cmd": "cd /repo && /venv/bin/python -m pytest -ra -q -p no:cacheprovider --timeout=900 --continue-on-collection-errors",
                  "source_commits": [], "add_only": True},
        "engines": [
            {"name": "QcTests/QcSession", "path": "spec/QcBase.tla spec/Calendar.tla spec/QcTests.tla spec/QcSession.tla spec/MC_QcSession.tla spec/GeoTable.tla spec/Trace_Qc.tla",
             "serves_properties": [p for p, (e, _) in sorted(CHECKS.items()) if e.startswith("QcTests")],
             "kind_free_text": "TLA+ transcription of the QC rules + session state machine; TLC model checking, state dump replay, trace validation"},
            {"name": "Aggregate", "path": "spec/AggregateOps.tla spec/Aggregate.tla spec/MC_Aggregate.tla spec/Trace_Agg.tla", "serves_properties": ["C04"],
             "kind_free_text": "TLA+ aggregate operator + permutation/duplication/grouping session"},
            {"name": "ConfigLoad", "path": "spec/ConfigLoadOps.tla spec/ConfigLoad.tla spec/MC_ConfigLoad.tla spec/Trace_Config.tla", "serves_properties": ["C07"],
             "kind_free_text": "TLA+ model of what a configuration denotes, independent of layout and carrier"},
            {"name": "Store", "path": "spec/Store.tla spec/MC_Store.tla spec/Trace_Store.tla", "serves_properties": ["C19"],
             "kind_free_text": "TLA+ statement of the saved frame (FrameOK) on top of PipelineOps / AggregateOps"},
            {"name": "FxParser", "path": "spec/FxParser.tla spec/MC_FxParser.tla spec/Trace_Fx.tla", "serves_properties": ["C20"],
             "kind_free_text": "TLA+ expression semantics + postfix stack machine with a never-cleared module-level stack"},
            {"name": "Pipeline", "path": "spec/PipelineOps.tla spec/Pipeline.tla spec/MC_Pipeline.tla spec/Trace_Pipeline.tla",
             "serves_properties": ["C05", "C06", "C18"],
             "kind_free_text": "TLA+ state machine of stream run + collect_results; all collect orders and fault placements"},
        ],
        "checks": checks,
        "not_applicable": [{"property_id": k, "reason": v} for k, v in sorted(NOT_YET.items()) if k not in CHECKS],
        "notes": "exit 0 = held on everything explored; exit 1 + VIOLATION lines = an observed execution of /repo the spec forbids; "
                 "exit 2 = machinery failure. IOOS_QC_TREE selects the tree under test (default /repo).",
    }
    with open(os.path.join(VERIF, "MANIFEST.json"), "w") as f:
        json.dump(man, f, indent=1)


if __name__ == "__main__":
    main()
