"""C05, C06, C18: the config -> stream -> results pipeline. Spec: spec/Pipeline.tla (+ MC_Pipeline, Trace_Pipeline)."""
from __future__ import annotations

import copy
import json
import os
import re

import core
import tlc

PROPS = {"C05", "C06", "C18"}
NA = -999999999

OWN = {"C05": ("c05_",), "C06": ("c06_",), "C18": ("c18_",)}


def unhealthy(table, e):
    fn, p = e["fn"], e["p"]
    if fn in ("boom", "nomod", "notest") or e["stream"] not in table["data"]:
        return True
    if fn == "gross" and len(p["fail"]) != 2:
        return True          # rejected parameters (the library's message for this one contains literal braces)
    if fn == "gross" and p["susp"] and (min(p["susp"]) < min(p["fail"]) or max(p["susp"]) > max(p["fail"])):
        return True
    if fn == "dens" and not table["z"]:
        return True
    if fn == "needpos" and not (table["lat"] and table["lon"]):
        return True
    if fn in ("roc", "flat", "att", "clim", "speed") and not table.get("hastime", True):
        return True
    if fn == "spike" and p["method"] not in ("average", "differential"):
        return True
    return False


def healthy_only(table, config):
    out = copy.deepcopy(config)
    for c in out:
        c["entries"] = [e for e in c["entries"] if not unhealthy(table, e)]
    return out


def has_fault(table, config):
    return any(unhealthy(table, e) for c in config for e in c["entries"])


# ------------------------------------------------------------------------------------------ random larger runs
POOL_H = [
    lambda r: {"stream": "a", "fn": "gross", "p": {"fail": sorted([r.randint(-2, 2), r.randint(3, 8)]), "susp": []}},
    lambda r: {"stream": "b", "fn": "gross", "p": {"fail": [6, 0], "susp": [r.randint(3, 5), r.randint(1, 2)]}},
    lambda r: {"stream": "a", "fn": "spike", "p": {"st": [r.choice([1, 2]), 1], "ft": [r.choice([3, 4]), 1],
                                                  "method": r.choice(["average", "differential"])}},
    lambda r: {"stream": "b", "fn": "spike", "p": {"st": [1, 2], "ft": [], "method": "average"}},
    lambda r: {"stream": "b", "fn": "roc", "p": {"thr": [1, r.choice([5, 10, 60])]}},
    lambda r: {"stream": "a", "fn": "roc", "p": {"thr": [r.choice([0, 1]), 10]}},
    lambda r: {"stream": "a", "fn": "dens", "p": {"st": [0, 1], "ft": [-1, 1]}},
    lambda r: {"stream": "b", "fn": "probe", "p": {"none": 0}},
    lambda r: {"stream": "a", "fn": "probe", "p": {"none": 0}},
    lambda r: {"stream": "b", "fn": "probe2", "p": {"none": 0}},
    lambda r: {"stream": "b", "fn": "needpos", "p": {"none": 0}},      # needs positions: cannot run on a table without
    lambda r: {"stream": "b", "fn": "valid", "p": {"lo": r.choice([NA, 1, 2]), "hi": r.choice([NA, 3, 6]), "sincl": r.random() < 0.5,
                                                  "eincl": r.random() < 0.5, "kind": "num"}},
]
POOL_F = [
    lambda r: {"stream": r.choice(["a", "b"]), "fn": "boom", "p": {"none": 0}},
    lambda r: {"stream": "a", "fn": "nomod", "p": {"none": 0}},
    lambda r: {"stream": "b", "fn": "notest", "p": {"none": 0}},
    lambda r: {"stream": "c", "fn": "gross", "p": {"fail": [0, 4], "susp": []}},
    lambda r: {"stream": "b", "fn": "gross", "p": {"fail": [1, 2], "susp": [0, 4]}},
    lambda r: {"stream": r.choice(["a", "b"]), "fn": "gross", "p": {"fail": [0, 4, 9], "susp": []}},
]


def rand_table(r, nmax):
    n = r.randint(1, nmax)
    t, cur = [], r.choice([0, 5])
    for _ in range(n):
        t.append(cur)
        cur += r.choice([1, 5, 10, 10, 60])
    # (negative and > 255 values: an accumulator of the wrong dtype would wrap or truncate them)
    tb = {"t": t, "hastime": True, "data": {"a": [r.choice([0, 0, 1, 2, 5, 7, -4, 300]) for _ in range(n)],
                           "b": [r.choice([0, 1, 1, 3, 6, -2, 1000]) for _ in range(n)]},
          "z": [], "lat": [], "lon": []}
    if r.random() < 0.6:
        z, v = [], r.randint(0, 3)
        for _ in range(n):
            v += r.choice([0, 1, 1, 2, -1])
            z.append(v)
        tb["z"] = z
    if r.random() < 0.5:
        tb["lat"] = [r.randint(-20, 20) for _ in range(n)]
        tb["lon"] = [r.randint(-40, 40) for _ in range(n)]
    if r.random() < 0.25:
        # axis columns with holes: a run of rows (often everything one window selects) without depth / position
        a = r.randrange(n)
        b = r.randint(a, n - 1) if r.random() < 0.7 else n - 1
        for k in ("z", "lat", "lon"):
            if tb[k] and (k == "z" or r.random() < 0.7):
                for i in range(a, b + 1):
                    tb[k][i] = NA
    if r.random() < 0.2:
        # observations that are missing (NaN in the arrays the front ends carry; masked for QcConfig.run)
        for k in ("a", "b"):
            if r.random() < 0.7:
                for i in r.sample(range(n), min(n, r.choice([1, 1, 2]))):
                    tb["data"][k][i] = NA
    if tb["z"] and r.random() < 0.12:
        tb["data"]["z"] = list(tb["z"])     # QC configured on the depth column itself: stream id = axis column
    if r.random() < 0.12:
        tb["hastime"] = False        # the stream gets no time array: no windows possible
    elif n >= 2 and r.random() < 0.3:
        # time stamps that repeat, or rows that are not in time order: a window is a set of rows, in original order
        if r.random() < 0.4:
            for i in r.sample(range(1, n), max(1, n // 3)):
                tb["t"][i] = tb["t"][i - 1]
        else:
            r.shuffle(tb["t"])
    if tb["hastime"] and r.random() < 0.12:
        # rows without a time (NaT): they satisfy no window bound
        for i in r.sample(range(n), min(n, r.choice([1, 1, 2]))):
            tb["t"][i] = NA
    return tb


def increasing(tb):
    return all(a < b for a, b in zip(tb["t"], tb["t"][1:])) and NA not in tb["t"]


def rand_config(r, tb, faults):
    t = [v for v in tb["t"] if v != NA] or [0]
    if not tb.get("hastime", True):
        ents, keys = [], set()
        for _ in range(r.randint(1, 4)):
            e = r.choice(POOL_F)(r) if (faults and r.random() < 0.4) else r.choice(POOL_H)(r)
            if (e["stream"], e["fn"]) not in keys:
                keys.add((e["stream"], e["fn"]))
                ents.append(e)
        return [{"win": [NA, NA], "entries": ents}]
    cuts = sorted(set([min(t)] + [r.choice(t) + r.choice([0, 0, 1, -1]) for _ in range(r.randint(0, 3))]))
    style = r.choice(["none", "partition", "partition", "holes", "overlap", "empty_first"])
    if not increasing(tb) and r.random() < 0.6:
        style = "wide"       # windows that keep most rows, so that rows out of time order stay together
    if style == "none":
        wins = [[NA, NA]]
    elif style == "partition":
        bs = [NA] + cuts[1:] + [NA]
        wins = [[bs[i], bs[i + 1]] for i in range(len(bs) - 1)]
        r.shuffle(wins)
    elif style == "holes":
        wins = [[cuts[0], cuts[len(cuts) // 2]]] + ([[cuts[-1], NA]] if len(cuts) > 1 else [])
    elif style == "wide":
        wins = [[NA, max(t)], [max(t), NA]] if r.random() < 0.5 else [[min(t) + 1, NA], [NA, min(t) + 1]]
    elif style == "empty_first":
        wins = [[min(t), min(t)], [NA, NA]]
    else:
        wins = [[NA, cuts[-1]], [cuts[0], NA]]
    wins = wins[:3]
    cfg, used = [], set()
    for w in wins:
        if any(c["win"] == w for c in cfg):
            continue
        ents, keys = [], set()
        for _ in range(r.randint(1, 3)):
            e = r.choice(POOL_F)(r) if (faults and r.random() < 0.45) else r.choice(POOL_H)(r)
            if e["fn"] == "roc" and not increasing(tb):
                continue        # the rate test is only stated for strictly increasing time axes
            k = (e["stream"], e["fn"])
            # keep one parameter set per key across contexts (C06 merges contexts per key)
            if k in keys:
                continue
            prev = [x for c in cfg for x in c["entries"] if (x["stream"], x["fn"]) == k]
            if prev and not unhealthy(tb, e):
                e = copy.deepcopy(prev[0]) if not unhealthy(tb, prev[0]) else e
            keys.add(k)
            ents.append(e)
        cfg.append({"win": w, "entries": ents})
    if "z" in tb["data"] and cfg:
        c = r.choice(cfg)
        for e in ({"stream": "z", "fn": "gross", "p": {"fail": [0, r.randint(3, 6)], "susp": []}},
                  {"stream": "z", "fn": "spike", "p": {"st": [1, 1], "ft": [3, 1], "method": "average"}}):
            if r.random() < 0.7:
                c["entries"].insert(r.randint(0, len(c["entries"])), e)
    if len(cfg) >= 2 and r.random() < 0.2:
        # the first window once more at the end, with other entries (W1, W2, W1): contexts with the same window are one
        # context, wherever they stand in the list
        keys = {(x["stream"], x["fn"]) for x in cfg[0]["entries"]}
        extra = []
        for _ in range(3):
            e = r.choice(POOL_H)(r)
            if (e["stream"], e["fn"]) not in keys and not (e["fn"] == "roc" and not increasing(tb)):
                prev = [x for c in cfg for x in c["entries"] if (x["stream"], x["fn"]) == (e["stream"], e["fn"])]
                extra.append(copy.deepcopy(prev[0]) if prev and not unhealthy(tb, prev[0]) else e)
                keys.add((e["stream"], e["fn"]))
        if extra:
            cfg.append({"win": list(cfg[0]["win"]), "entries": extra})
    return cfg


# ------------------------------------------------------------------------------------------ the check
def states_from_init_dump(ctx, big):
    res = core.mc(ctx, "init_states", "MC_Pipeline", {"Big": big}, invariants=[], init="MCPInit", nxt="MCPStutter", dump=True)
    # the stutter run only enumerates the initial states: do not count them twice
    ctx.states -= res.get("states", 0)
    ctx.transitions -= res.get("transitions", 0)
    ctx.mc_runs.pop()
    with open(res["dump_path"]) as f:
        blocks = re.split(r"^State \d+:\s*$", f.read(), flags=re.M)[1:]
    os.remove(res["dump_path"])
    return blocks


def simulated_behaviours(ctx, big, num):
    """-> [(table, config, order)] from `tlc -simulate` behaviours of MC_Pipeline"""
    import glob
    wd = tlc.workdir("sim_" + ctx.prop)
    cfgp = os.path.join(wd, "sim.cfg")
    with open(cfgp, "w") as f:
        f.write("INIT MCPInit\nNEXT MCPNext\nCONSTANTS\n  Big = %s\nCHECK_DEADLOCK FALSE\n" % ("TRUE" if big else "FALSE"))
    res = tlc.run_tlc("MC_Pipeline", cfg=cfgp, workers=1, tag="sim_" + ctx.prop, timeout=1800,
                      extra=["-simulate", "file=%s,num=%d" % (os.path.join(wd, "b"), num), "-depth", "16", "-seed", str(ctx.seed)])
    tlc.require_clean(res, "MC_Pipeline -simulate")
    out = []
    for path in sorted(glob.glob(os.path.join(wd, "b_*"))):
        text = open(path).read()
        last = re.split(r"^STATE_\d+ ==\s*$", text, flags=re.M)[-1]
        last = last.split("=====")[0]
        st = {}
        for part in re.split(r"^/\\ ", last.strip(), flags=re.M):
            part = part.strip()
            if part and " = " in part:
                name, _, val = part.partition(" = ")
                if name.strip() in ("table", "config", "order"):
                    st[name.strip()] = tlc.parse_value(val)
        if st.get("order"):
            out.append((st["table"], st["config"], st["order"]))
    return out


def parse_state(block):
    st = {}
    for part in re.split(r"^/\\ ", block.strip(), flags=re.M):
        if part.strip():
            name, _, val = part.strip().partition(" = ")
            st[name.strip()] = tlc.parse_value(val)
    return st


def check(ctx):
    import pipe_exec
    prop = ctx.prop
    big = not ctx.quick
    core.mc(ctx, "pipeline", "MC_Pipeline", {"Big": big},
            invariants=["InvYieldShape", "InvC06", "InvC06Prefix", "InvCommute", "InvC18"], init="MCPInit", nxt="MCPNext",
            timeout=3300, deadlock=True)      # deadlock check on: every run of the model reaches "done"
    blocks = states_from_init_dump(ctx, big)
    idx = list(range(len(blocks)))
    ctx.rng.shuffle(idx)
    wd = tlc.workdir("pipe_" + prop)
    events = []
    runs = 0
    grp = 0

    def add_run(table, config, frontend, rel, form, max_orders):
        nonlocal runs, grp
        runs += 1
        if rel == "base":
            grp += 1
        evs = pipe_exec.run_frontend(frontend, table, config, wd, form=form, max_orders=max_orders, rng=ctx.rng)
        for e in evs:
            e["id"] = len(events) + 1
            e["rid"] = runs
            e["rel"] = {"kind": rel}
            e["grp"] = grp          # a base run and its healthy-only twin are validated together
            e.pop("msg", None)
            events.append(e)

    fe_all = pipe_exec.FRONTENDS
    forms = ["iso", "datetime", "timestamp"]
    max_orders = {"C05": 1, "C06": ctx.pick(6, 12), "C18": 2}[prop]
    n_model = ctx.pick({"C05": 260, "C06": 300, "C18": 300}[prop], {"C05": 1500, "C06": 1500, "C18": 1000}[prop])
    cases = []
    for i in idx:
        if len(cases) >= n_model:
            break
        st = parse_state(blocks[i])
        tb, cfg = st["table"], st["config"]
        if prop == "C18" and not has_fault(tb, cfg):
            continue
        cases.append((tb, cfg))
    ctx.cov["model_initial_states_total"] = len(blocks)
    ctx.cov["model_initial_states_replayed"] = len(cases)
    ctx.cov["exhaustive"] = len(cases) >= len(blocks)
    # the legacy single-stream usage (a bare module mapping through QcConfig.run): one stream, no window,
    # every pair of one healthy and one unrunnable entry in both orders
    legacy_tb = {"t": [0, 10, 20, 30], "hastime": True, "data": {"a": [0, 5, -3, 300], "b": [1, 1, 5, 0]},
                 "z": [0, 1, 2, 3], "lat": [], "lon": []}
    H = [{"stream": "a", "fn": "gross", "p": {"fail": [0, 4], "susp": []}},
         {"stream": "a", "fn": "spike", "p": {"st": [1, 1], "ft": [3, 1], "method": "average"}},
         {"stream": "a", "fn": "valid", "p": {"lo": 1, "hi": NA, "sincl": True, "eincl": False, "kind": "num"}}]
    F = [{"stream": "a", "fn": "nomod", "p": {"none": 0}}, {"stream": "a", "fn": "notest", "p": {"none": 0}},
         {"stream": "a", "fn": "boom", "p": {"none": 0}}]
    for h in H:
        for f in F:
            for pair in ([h, f], [f, h]):
                cases.append((legacy_tb, [{"win": [NA, NA], "entries": copy.deepcopy(pair)}]))
    import random as _r
    g = _r.Random(ctx.seed + 5)
    for _ in range(ctx.pick(150, 1200)):
        tb = rand_table(g, ctx.pick(8, 14))
        cases.append((tb, rand_config(g, tb, faults=(prop == "C18" or g.random() < 0.25))))
    # single-stream configurations over series with missing observations (what QcConfig.run is handed in practice)
    want, tries = ctx.pick(40, 300), 0
    while want > 0 and tries < 20000:
        tries += 1
        tb = rand_table(g, ctx.pick(8, 14))
        cfg = rand_config(g, tb, faults=(prop == "C18"))
        sids = {e["stream"] for c in cfg for e in c["entries"]}
        if len(sids) == 1 and list(sids)[0] in tb["data"]:
            col = tb["data"][list(sids)[0]]
            for i in g.sample(range(len(col)), min(len(col), g.choice([1, 2]))):
                col[i] = NA
            cases.append((tb, cfg))
            want -= 1
    for n, (tb, cfg) in enumerate(cases):
        fes = [f for f in fe_all if pipe_exec.applicable(f, tb, cfg)]
        if not tb.get("hastime", True):
            fes = [f for f in fes if f not in ("xarray_var", "xarray_named", "netcdf_named")]
        if ctx.quick:
            # every front end is visited round-robin; two per case (plus the legacy wrapper whenever it applies)
            pick = [fes[(n + k) % len(fes)] for k in range(2)] if prop != "C06" else [fes[n % len(fes)]]
            if "qcconfig_bare" in fes and "qcconfig_bare" not in pick:
                pick.append("qcconfig_bare")
            fes = pick
        elif prop != "C05":
            # thorough: C05 visits every front end for every case; C06 / C18 rotate through them (4 resp. 6 per case)
            k = 4 if prop == "C06" else 6
            fes = [fes[(n + j) % len(fes)] for j in range(min(k, len(fes)))]
        if not increasing(tb) and tb.get("hastime", True):
            # rows out of time order / repeated or missing time stamps: each family of front ends sees such a table
            for f in ("pandas", "xarray", "numpy_dict", "pandas_idx"):
                if f in fe_all and pipe_exec.applicable(f, tb, cfg) and f not in fes:
                    fes = fes + [f]
        if any(v == NA for col in tb["data"].values() for v in col):
            # missing observations: the single-stream wrapper gets them as a masked array (every other table) or as NaN
            for f in ("qcconfig", "qcconfig_bare"):
                if f in fe_all and pipe_exec.applicable(f, tb, cfg) and f not in fes:
                    fes = fes + [f]
        if prop == "C05" and n % 5 == 2:
            # a legacy-style configuration that still carries input-named parameters: the stream's rows must win
            fes = [fes[0] + "+stale"] + fes[1:] if ctx.quick else fes + [f + "+stale" for f in fes]
        if prop == "C05" and n % 5 == 3:
            # the same stream object and Config object run a second time
            fes = [fes[0] + "+again"] + fes[1:] if ctx.quick else fes + [f + "+again" for f in fes]
        if prop in ("C05", "C18") and n % 5 == 4:
            # the Config object has already been run on a table that has every axis column
            multi = [f for f in fes if "+" not in f and f not in ("qcconfig", "qcconfig_bare", "numpy_arr")]
            if multi:
                fes = [f + "+reuse" if f == multi[0] else f for f in fes] if ctx.quick else fes + [f + "+reuse" for f in multi]
        for fe in fes:
            form = forms[(n + len(fe)) % 3]
            add_run(tb, cfg, fe, "base", form, max_orders)
            if prop == "C06" and n % 4 == 1 and len(tb["t"]) >= 2 and fe.split("+")[0] in ("pandas", "numpy_dict", "xarray", "pandas_idx"):
                je = pipe_exec.joint_event(fe.split("+")[0], tb, cfg, wd, form=form)
                je.update({"id": len(events) + 1, "rid": runs, "rel": {"kind": "base"}, "grp": grp})
                events.append(je)
            if prop == "C18" and has_fault(tb, cfg) and fe not in ("qcconfig", "qcconfig_bare"):
                hcfg = healthy_only(tb, cfg)
                if fe == "numpy_arr" and not any(c["entries"] for c in hcfg):
                    continue        # a bare array needs a stream id from the configuration: nothing healthy is left to name one
                add_run(tb, hcfg, fe, "healthy_of", form, 0)
    if prop in ("C05", "C18"):
        # datasets whose variables sit on two dimensions (XarrayStream looks the inputs up per variable): stream "b" on a
        # dimension without time / depth / position next to stream "a" that has them all, one context without a window
        g2 = _r.Random(ctx.seed + 11)
        nsplit, tries = 0, 0
        while nsplit < ctx.pick(80, 500) and tries < 20000:
            tries += 1
            tb = rand_table(g2, ctx.pick(8, 14))
            if not tb.get("hastime", True) or not increasing(tb) or "z" in tb["data"]:
                continue
            ents, keys = [], set()
            for _ in range(g2.randint(2, 5)):
                e = g2.choice(POOL_F)(g2) if (prop == "C18" and g2.random() < 0.3) else g2.choice(POOL_H)(g2)
                if g2.random() < 0.3:
                    e = {"stream": "b", "fn": "needpos", "p": {"none": 0}}
                if (e["stream"], e["fn"]) not in keys:
                    keys.add((e["stream"], e["fn"]))
                    ents.append(e)
            if not any(e["stream"] == "b" for e in ents) or not any(e["stream"] == "a" for e in ents):
                continue
            for evs in pipe_exec.run_split(tb, [{"win": [NA, NA], "entries": ents}], wd, form=forms[nsplit % 3]):
                runs += 1
                grp += 1
                for e in evs:
                    e["id"], e["rid"], e["rel"], e["grp"] = len(events) + 1, runs, {"kind": "base"}, grp
                    e.pop("msg", None)
                    events.append(e)
            nsplit += 1
        ctx.cov["runs_on_datasets_with_two_dimensions"] = nsplit
    if prop == "C06":
        # spec -> code: behaviours generated by TLC (-simulate): the collect order of each behaviour (complete, or a
        # prefix when the behaviour was cut at the depth bound) is replayed through the real collect_results
        sim = simulated_behaviours(ctx, big, ctx.pick(120, 1500))
        for n, (tb, cfg, order) in enumerate(sim):
            fe = ["pandas", "numpy_dict", "xarray", "pandas_idx"][n % 4]
            if not pipe_exec.applicable(fe, tb, cfg):
                fe = "pandas"
            runs += 1
            grp += 1
            evs = pipe_exec.run_frontend(fe, tb, cfg, wd, form="iso", rng=ctx.rng, fixed_orders=[order])
            for e in evs:
                e["id"], e["rid"], e["rel"], e["grp"] = len(events) + 1, runs, {"kind": "base"}, grp
                e.pop("msg", None)
                events.append(e)
        ctx.cov["tlc_behaviours_replayed"] = len(sim)
    ctx.cov["real_runs"] = runs
    ctx.cov["frontends"] = fe_all
    ctx.cov["runs_with_input_named_parameters_in_config"] = sum(1 for e in events if e["ev"] == "load" and e["frontend"].endswith("+stale"))
    ctx.cov["runs_of_a_config_object_used_before_on_a_richer_table"] = sum(1 for e in events if e["ev"] == "load" and e["frontend"].endswith("+reuse"))
    ctx.cov["second_runs_of_the_same_stream_and_config_objects"] = sum(1 for e in events if e["ev"] == "load" and e["frontend"].endswith("+again"))
    rejects = core.validate_parallel(ctx, events, "Trace_Pipeline", "pipe", session_key="grp", chunk=1500)
    by_id = {e["id"]: e for e in events}
    loads = {}
    for e in events:
        if e["ev"] == "load":
            loads[e["rid"]] = e
    owned = []
    # runs whose yields are already wrong for window / rule reasons (C05's business)
    c05_runs = {by_id[i]["rid"] for i, cl in rejects if cl.startswith("c05_") and cl not in ("c05_total", "c05_missing_yield")}
    for i, cl in rejects:
        e = by_id[i]
        if cl.startswith("harness"):
            raise tlc.MachineryError("harness produced an inconsistent pipeline event: %s %r" % (cl, e))
        ld = loads[e["rid"]]
        mine = cl.startswith(OWN[prop])
        if prop == "C18" and cl == "c18_spec" and e["rid"] in c05_runs:
            mine = False     # the accumulators differ from the spec because a yield was wrong, not because of a fault
        # a run that dies, or loses / corrupts the healthy results, while unrunnable entries are configured: C18
        # (c05_ran: an entry that cannot run produced a result, or a healthy one produced none)
        if prop == "C18" and has_fault(ld["table"], ld["config"]) and (
                cl in ("c05_total", "c05_missing_yield", "c05_ran") or cl.startswith("c06_")):
            mine = True     # ... including the collected data / axis arrays of the healthy results
        if mine:
            owned.append((dict(e, _load=ld), cl))
        else:
            o = "C05" if cl.startswith("c05") else "C06" if cl.startswith("c06") else "C18"
            ctx.other[o] = ctx.other.get(o, 0) + 1
            if os.environ.get("VERIF_DEBUG"):
                print("OTHER %s %s %s" % (o, cl, json.dumps({"frontend": ld["frontend"], "table": ld["table"], "config": ld["config"],
                                                             "event": {k: e[k] for k in e if k not in ("table", "config")}})[:1500]))
    for e in [x for x in events if x["ev"] == "load"][:: max(1, runs // 5)][:5]:
        ctx.samples.append({"frontend": e["frontend"], "table": e["table"], "config": e["config"]})
    ctx.cov["distinct_nontrivial"] = len({json.dumps([e["table"], e["config"]], sort_keys=True)
                                          for e in events if e["ev"] == "load" and len(e["table"]["t"]) >= 2})
    ctx.cov["evaluations"] = runs
    # binding self-test: corrupt one yielded flag / one collected flag
    selftest(ctx, events)

    def sig(e, cl):
        ld = e["_load"]
        fns = sorted({x["fn"] for c in ld["config"] for x in c["entries"]})
        part = all(c["win"] == [NA, NA] for c in ld["config"])
        return "%s|%s|%s|fn=%s|windows=%s|exc=%s" % (cl, ld["frontend"], e["ev"], e.get("fn", ""),
                                                     "none" if part else "yes", (e.get("exc") or "")[:40])

    def example(e, cl):
        ld = e["_load"]
        return json.dumps({"frontend": ld["frontend"], "table": ld["table"], "config": ld["config"],
                           "event": {k: v for k, v in e.items() if k not in ("_load", "table", "config")}})[:700]

    def payload(v):
        e = v["event"]
        ld = e["_load"]
        return {"kind": "pipeline", "clause": v["clause"], "signature": v["sig"], "count": v["count"],
                "frontend": ld["frontend"], "table": ld["table"], "config": ld["config"], "rel": ld["rel"],
                "event": {k: val for k, val in e.items() if k != "_load"}}

    core.report(ctx, owned, sig, payload, example)
    return core.finish(ctx, "model_checking",
                       "cases are real runs of a stream front end on an abstract (table, config): the initial states of "
                       "MC_Pipeline (every table x window layout x entry placement incl. unrunnable entries; TLC explores every "
                       "collect order and checks C06/C18 on the model) replayed through the front ends, plus seeded random tables "
                       "and configs; every yield and every collect_results call (several arrival orders and a prefix) is judged "
                       "by TLC (Trace_Pipeline)")


def selftest(ctx, events):
    import tv
    # pick a run that is accepted, then corrupt it
    by_run = {}
    for e in events:
        by_run.setdefault(e["rid"], []).append(e)
    for rid, evs in by_run.items():
        ys = [e for e in evs if e["ev"] == "yield" and e["ok"] and e["flags"]]
        cs = [e for e in evs if e["ev"] == "collect" and not e["exc"] and e["accL"]]
        if not ys or not cs or evs[0]["rel"]["kind"] != "base":
            continue
        evs = json.loads(json.dumps(evs))
        for k, e in enumerate(evs):
            e["id"] = k + 1
        good, _ = tv.validate(evs, "Trace_Pipeline", ctx.prop + "_self0")
        if good:
            continue
        y = [e for e in evs if e["ev"] == "yield" and e["ok"] and e["flags"]][0]
        y["flags"][0] = 4 if y["flags"][0] != 4 else 1
        c = [e for e in evs if e["ev"] == "collect" and e["accL"]][0]
        c["accD"][0]["flags"][0] = 3 if c["accD"][0]["flags"][0] != 3 else 1
        bad, _ = tv.validate(evs, "Trace_Pipeline", ctx.prop + "_self1")
        cl = {x for _, x in bad}
        if "c05_flags" not in cl or "c06_dict" not in cl:
            raise tlc.MachineryError("binding self-test failed for Trace_Pipeline: %r" % sorted(cl))
        ctx.cov["binding_selftest"] = "corrupted yield flag -> c05_flags, corrupted collected flag -> c06_dict (run %d)" % rid
        return
