"""Concretise an abstract (table, config) for each stream front end, run the real ioos_qc pipeline and
project yields / collected results back to the abstract encoding of spec/Pipeline.tla."""
from __future__ import annotations

import datetime as _dt
import itertools
import math
import os

import qcexec  # noqa: F401  imports ioos_qc from the tree under test
import numpy as np
import pandas as pd
import xarray as xr

import ioos_qc.qartod as qartod
from ioos_qc import config as qc_config
from ioos_qc.config import Config
from ioos_qc.results import collect_results
from ioos_qc.streams import NetcdfStream, NumpyStream, PandasStream, XarrayStream

NA = -999999999
TBASE = 1577836800
FN2TEST = {"gross": "gross_range_test", "spike": "spike_test", "roc": "rate_of_change_test",
           "dens": "density_inversion_test", "flat": "flat_line_test", "probe": "verif_probe_test",
           "boom": "verif_boom_test", "notest": "not_a_test", "nomod": "some_test",
           "valid": "valid_range_test", "press": "pressure_increasing_test", "probe2": "verif_probe_test",
           "needpos": "verif_needpos_test"}
FN2MOD = {"valid": "axds", "press": "argo", "probe2": "argo", "nomod": "not_a_module"}
MODTEST2FN = {(FN2MOD.get(k, "qartod"), v): k for k, v in FN2TEST.items()}


def fn_of(module, test):
    return MODTEST2FN.get((module, test), test)
FRONTENDS = ["pandas", "pandas_idx", "numpy_dict", "numpy_arr", "xarray", "xarray_var", "netcdf_ds", "netcdf_path",
             "qcconfig", "pandas_named", "xarray_named", "netcdf_named", "qcconfig_bare"]
# the *_named front ends use non-default column / variable names for the axes and pass them to the stream
NAMED = {"time": "obs_time", "z": "depth", "lat": "y", "lon": "x"}

PROBE_LOG = []
RUN_LOG = []


def verif_probe_test(inp, tinp=None, zinp=None, lat=None, lon=None, tag=0):
    """registered at run time in ioos_qc.qartod; records what the stream handed over"""
    PROBE_LOG.append({"inp": inp, "tinp": tinp, "zinp": zinp, "lat": lat, "lon": lon})
    return np.ma.ones(len(inp), dtype="uint8")


def verif_boom_test(inp, tinp=None, zinp=None, lat=None, lon=None, tag=0):
    """a test that cannot run -- and that scribbles over whatever it was handed before it dies (a test owns its inputs:
    nothing it does to them may reach the other tests of the run)"""
    for a in (tinp, zinp, lat, lon):
        try:
            if a is not None and len(a):
                a[...] = a[0]
        except Exception:  # noqa: BLE001  read-only or not an array: nothing to scribble on
            pass
    try:
        inp[...] = -12345.0
    except Exception:  # noqa: BLE001
        pass
    raise RuntimeError("boom")


def verif_probe_test2(inp, tinp=None, zinp=None, lat=None, lon=None, tag=0):
    """the same test NAME registered in a second module (argo)"""
    PROBE_LOG.append({"inp": inp, "tinp": tinp, "zinp": zinp, "lat": lat, "lon": lon})
    return np.ma.ones(len(inp), dtype="uint8")


verif_probe_test2.__name__ = "verif_probe_test"


def verif_needpos_test(inp, lat, lon, tag=0):
    """a test that REQUIRES positions (no defaults): it cannot run on a stream that supplies none"""
    return np.ma.ones(len(inp), dtype="uint8")


def install():
    import logging
    logging.disable(logging.CRITICAL)      # ioos_qc logs every skipped / failed call; the events carry that information
    import ioos_qc.argo as argo
    qartod.verif_probe_test = verif_probe_test
    qartod.verif_boom_test = verif_boom_test
    qartod.verif_needpos_test = verif_needpos_test
    verif_needpos_test.__module__ = "ioos_qc.qartod"
    argo.verif_probe_test = verif_probe_test2
    verif_probe_test.__module__ = "ioos_qc.qartod"
    verif_boom_test.__module__ = "ioos_qc.qartod"
    verif_probe_test2.__module__ = "ioos_qc.argo"
    if not getattr(qc_config.Call, "_verif_wrapped", False):
        orig = qc_config.Call.run

        def run(self, **kw):
            RUN_LOG.append((self.stream_id, self.module, self.method))
            return orig(self, **kw)
        qc_config.Call.run = run
        qc_config.Call._verif_wrapped = True


def rat(q):
    return q[0] / q[1]


def entry_kwargs(e):
    fn, p = e["fn"], e["p"]
    if fn == "gross":
        kw = {"fail_span": [float(v) for v in p["fail"]]}
        if p["susp"]:
            kw["suspect_span"] = [float(v) for v in p["susp"]]
        return kw
    if fn == "spike":
        kw = {"method": p["method"]}
        if p["st"]:
            kw["suspect_threshold"] = rat(p["st"])
        if p["ft"]:
            kw["fail_threshold"] = rat(p["ft"])
        return kw
    if fn == "roc":
        return {"threshold": rat(p["thr"])}
    if fn == "dens":
        kw = {}
        if p["st"]:
            kw["suspect_threshold"] = rat(p["st"])
        if p["ft"]:
            kw["fail_threshold"] = rat(p["ft"])
        return kw
    if fn == "flat":
        return {"suspect_threshold": p["st"], "fail_threshold": p["ft"], "tolerance": rat(p["tol"])}
    if fn in ("probe", "probe2", "boom", "needpos"):
        return {"tag": 1}
    if fn == "valid":
        return {"valid_span": [None if p["lo"] == NA else float(p["lo"]), None if p["hi"] == NA else float(p["hi"])],
                "start_inclusive": p["sincl"], "end_inclusive": p["eincl"]}
    return {}


def bound(v, form):
    ts = pd.Timestamp(TBASE + v, unit="s")
    if form == "iso":
        return ts.isoformat()
    if form == "datetime":
        return ts.to_pydatetime()
    return ts


def stale_inputs(table):
    """input-named parameters left in a configuration (legacy style): whatever the stream supplies must win over
    them, so they are only written for the inputs the table has; the values are chosen to give other flags"""
    n = len(table["t"])
    kw = {"inp": [1000.0 + 7 * (i % 3) for i in range(n)]}
    if has_time(table):
        kw["tinp"] = [int(TBASE + 86400 * 400 + 3 * i) for i in range(n)]
    if table["z"]:
        kw["zinp"] = [float(-i) for i in range(n)]
    if table["lat"]:
        kw["lat"] = [80.0] * n
        kw["lon"] = [170.0 - i for i in range(n)]
    return kw


def config_dict(config, form="iso", rename=None, stale=None):
    ctxs = []
    for c in config:
        d = {"streams": {}}
        w = {}
        if c["win"][0] != NA:
            w["starting"] = bound(c["win"][0], form)
        if c["win"][1] != NA:
            w["ending"] = bound(c["win"][1], form)
        if w or form == "datetime":
            d["window"] = w
        for e in c["entries"]:
            sid = (rename or {}).get(e["stream"], e["stream"])
            mod = FN2MOD.get(e["fn"], "qartod")
            kw = entry_kwargs(e)
            if e["fn"] in ("nomod", "notest") and (len(ctxs) + len(d["streams"])) % 2 == 1:
                kw = None                   # an unknown name written without parameters ("not_a_test:" in YAML)
            elif stale is not None:
                kw.update(stale_inputs(stale))
            d["streams"].setdefault(sid, {}).setdefault(mod, {})[FN2TEST[e["fn"]]] = kw
        ctxs.append(d)
    return {"contexts": ctxs}


def times(table):
    out = (np.array([TBASE + (0 if t == NA else t) for t in table["t"]], dtype="int64").astype("datetime64[s]")).astype("datetime64[ns]")
    for i, t in enumerate(table["t"]):
        if t == NA:
            out[i] = np.datetime64("NaT")        # a row without a time
    return out


def fl(seq):
    return np.array([math.nan if v == NA else float(v) for v in seq], dtype="float64")


def has_time(table):
    return table.get("hastime", True)


def frame(table, idx=False, names=None):
    nm = names or {}
    d = {nm.get("time", "time"): times(table)} if has_time(table) else {}
    for k, v in table["data"].items():
        d[k] = fl(v)
    for k in ("z", "lat", "lon"):
        if table[k]:
            d[nm.get(k, k)] = fl(table[k])
    df = pd.DataFrame(d)
    if idx:
        df.index = [100 + 10 * i for i in range(len(df))]
    return df


def dataset(table, time_coord=True, names=None):
    nm = names or {}
    n = len(table["t"])
    if not has_time(table):
        time_coord = False
    tname = nm.get("time", "time")
    dim = tname if time_coord else "obs"
    dv = {k: ((dim,), fl(v)) for k, v in table["data"].items()}
    for k in ("z", "lat", "lon"):
        if table[k]:
            dv[nm.get(k, k)] = ((dim,), fl(table[k]))
    if time_coord:
        return xr.Dataset(dv, coords={tname: times(table)})
    if has_time(table):
        dv["time"] = ((dim,), times(table))
    return xr.Dataset(dv, coords={"obs": np.arange(n)})


def applicable(frontend, table, config):
    streams = {e["stream"] for c in config for e in c["entries"]}
    if frontend == "qcconfig_bare":
        # the legacy single-stream usage: a bare module mapping, no contexts / windows at all
        return (len(config) == 1 and config[0]["win"] == [NA, NA] and len(streams) == 1
                and list(streams)[0] in table["data"])
    if frontend in ("numpy_arr", "qcconfig"):
        return len(streams) == 1 and list(streams)[0] in table["data"]
    return True


def make_stream(frontend, table, config, workdir):
    if frontend == "pandas":
        return PandasStream(frame(table))
    if frontend == "pandas_idx":
        return PandasStream(frame(table, idx=True))
    if frontend == "pandas_named":
        return PandasStream(frame(table, names=NAMED), **NAMED)
    if frontend == "xarray_named":
        return XarrayStream(dataset(table, True, names=NAMED), **NAMED)
    if frontend == "netcdf_named":
        return NetcdfStream(dataset(table, True, names=NAMED), **NAMED)
    kw = {"time": times(table)} if has_time(table) else {}
    for k in ("z", "lat", "lon"):
        if table[k]:
            kw[k] = fl(table[k])
    if frontend == "numpy_dict":
        return NumpyStream(inp={k: fl(v) for k, v in table["data"].items()}, **kw)
    if frontend == "numpy_arr":
        sid = [e["stream"] for c in config for e in c["entries"]][0]
        return NumpyStream(inp=fl(table["data"][sid]), **kw)
    if frontend == "xarray":
        return XarrayStream(dataset(table, True))
    if frontend == "xarray_var":
        return XarrayStream(dataset(table, False))
    if frontend == "netcdf_ds":
        return NetcdfStream(dataset(table, True))
    if frontend == "netcdf_path":
        path = os.path.join(workdir, "t.nc")
        ds = dataset(table, True)
        ds.to_netcdf(path, engine="scipy", format="NETCDF3_64BIT",
                     encoding={"time": {"units": "seconds since 1970-01-01", "dtype": "float64"}} if has_time(table) else {})
        return NetcdfStream(path)
    raise KeyError(frontend)


def absnum(v):
    if v is None or v is np.ma.masked:
        return NA
    if isinstance(v, (np.datetime64, pd.Timestamp, _dt.datetime)):
        if pd.isna(v):
            return NA
        return int((pd.Timestamp(v).value // 10**9) - TBASE)
    try:
        f = float(v)
    except Exception:
        return NA
    if math.isnan(f):
        return NA
    if abs(f - round(f)) > 1e-9:
        return -777777     # a non-integral value can only be a wrong value: it will not match the source
    return int(round(f))


def absarr(a):
    if a is None:
        return []
    if isinstance(a, (pd.Series, pd.Index)):
        a = a.to_numpy()
    if isinstance(a, np.ma.MaskedArray):
        m = np.ma.getmaskarray(a).ravel()
        d = np.asarray(a.data).ravel()
        return [NA if m[i] else absnum(d[i]) for i in range(d.size)]
    a = np.asarray(a).ravel()
    if a.dtype.kind == "M":
        return [absnum(x) for x in a]
    return [absnum(x) for x in a.tolist()]


def absflags(a):
    if isinstance(a, np.ma.MaskedArray):
        m = np.ma.getmaskarray(a).ravel()
        d = np.asarray(a.data).ravel()
        return [-1 if m[i] else int(d[i]) for i in range(d.size)]
    return [int(x) for x in np.asarray(a).ravel().tolist()]


def joint_event(frontend, table, config, workdir, form="iso"):
    """one collect over the ContextResults of TWO runs whose streams have different numbers of rows (as the variables of
    a dataset on different dimensions have): the second run is the same table cut to its first rows with the stream ids
    renamed.  Every (stream, module, test) of the joint collection must equal what its own run gives alone."""
    install()
    n = len(table["t"])
    m = max(1, n // 2)
    ren = {k: k + "2" for k in table["data"]}
    t2 = {"t": table["t"][:m], "hastime": table.get("hastime", True), "data": {ren[k]: v[:m] for k, v in table["data"].items()},
          "z": table["z"][:m], "lat": table["lat"][:m], "lon": table["lon"][:m]}
    c2 = [{"win": c["win"], "entries": [dict(e, stream=ren.get(e["stream"], e["stream"] + "2")) for e in c["entries"]]} for c in config]
    ev = {"ev": "joint", "exc": "", "same1": False, "same2": False, "n1": n, "n2": m}

    def entries(lst):
        return {(cr.stream_id, cr.package, cr.test): (absflags(cr.results), absarr(cr.data), absarr(cr.tinp), absarr(cr.zinp))
                for cr in lst}
    try:
        r1 = list(make_stream(frontend, table, config, workdir).run(Config(config_dict(config, form))))
        r2 = list(make_stream(frontend, t2, c2, workdir).run(Config(config_dict(c2, form))))
        solo1, solo2 = entries(collect_results(r1, how="list")), entries(collect_results(r2, how="list"))
        for order in (r1 + r2, r2 + r1):
            both = entries(collect_results(order, how="list"))
            ev["same1"] = all(both.get(k) == v for k, v in solo1.items())
            ev["same2"] = all(both.get(k) == v for k, v in solo2.items()) and len(both) == len(solo1) + len(solo2)
            if not (ev["same1"] and ev["same2"]):
                break
    except Exception as e:  # noqa: BLE001
        ev["exc"] = type(e).__name__
    return ev


def run_frontend(frontend, table, config, workdir, form="iso", max_orders=3, rng=None, fixed_orders=None):
    """-> list of events (dicts without id/rid) for one real run"""
    install()
    ev = [{"ev": "load", "table": table, "config": config, "frontend": frontend}]
    # "<front end>+stale": the configuration also carries input-named parameters (inp, tinp, zinp, lat, lon)
    stale = table if frontend.endswith("+stale") else None
    # "<front end>+again": the same stream object and the same Config object are run twice; the SECOND run is recorded
    again = frontend.endswith("+again")
    # "<front end>+reuse": the Config object has been run before, on a richer table (the same rows with a time, depth and
    # position column each); the run on the actual table is recorded
    reuse = frontend.endswith("+reuse")
    frontend = frontend.split("+")[0]
    del PROBE_LOG[:]
    del RUN_LOG[:]
    if frontend in ("qcconfig", "qcconfig_bare"):
        sid = [e["stream"] for c in config for e in c["entries"]][0]
        import warnings
        try:
            with warnings.catch_warnings():
                warnings.simplefilter("ignore")
                cd = config_dict(config, form, stale=stale)
                if frontend == "qcconfig_bare":
                    cd = cd["contexts"][0]["streams"][sid]          # {module: {test: kwargs}}
                qc = qc_config.QcConfig(cd, default_stream_key=sid)
                kw = {"inp": fl(table["data"][sid])}
                if len(table["t"]) % 2:
                    # the same series as a masked array (missing values masked, finite junk underneath)
                    raw = fl(table["data"][sid])
                    kw["inp"] = np.ma.MaskedArray(np.where(np.isnan(raw), 4321.0, raw), mask=np.isnan(raw))

                if has_time(table):
                    kw["tinp"] = times(table)
                if table["z"]:
                    kw["zinp"] = fl(table["z"])
                if table["lat"]:
                    kw["lat"], kw["lon"] = fl(table["lat"]), fl(table["lon"])
                if again:
                    qc.run(**dict(kw, inp=kw["inp"][::-1].copy()))      # an earlier run of the same object on other data
                res = qc.run(**kw)
            accD = [{"stream": sid, "fn": fn_of(mod, t), "flags": absflags(v)}
                    for mod, tests in res.items() for t, v in tests.items()]
            ev.append({"ev": "collect", "order": [], "direct": True, "first": True, "exc": "", "accL": [], "accD": accD, "dkeys": []})
        except Exception as e:  # noqa: BLE001
            ev.append({"ev": "collect", "order": [], "direct": True, "first": True, "exc": type(e).__name__,
                       "msg": str(e)[:120], "accL": [], "accD": [], "dkeys": []})
        return ev
    results, exc = [], ""
    try:
        cfg = Config(config_dict(config, form, stale=stale))
        if reuse:
            n = len(table["t"])
            rich = dict(table, hastime=True, z=table["z"] or [i % 4 for i in range(n)],
                        lat=table["lat"] or [(3 * i) % 7 for i in range(n)], lon=table["lon"] or [(5 * i) % 9 for i in range(n)])
            for r in make_stream(frontend, rich, config, workdir).run(cfg):
                pass
            del PROBE_LOG[:]
            del RUN_LOG[:]
        stream = make_stream(frontend, table, config, workdir)
        if again:
            for r in stream.run(cfg):
                pass
            del PROBE_LOG[:]
            del RUN_LOG[:]
        gen = stream.run(cfg)
        for r in gen:
            results.append(r)
    except Exception as e:  # noqa: BLE001
        exc = type(e).__name__ + ": " + str(e)[:100]
    probes = list(PROBE_LOG)
    runlog = list(RUN_LOG)
    pi = 0
    for k, r in enumerate(results):
        sid, mod, meth = runlog[k] if k < len(runlog) else (r.stream_id, "?", "?")
        fn = fn_of(mod, meth)
        ok = len(r.results) > 0
        y = {"ev": "yield", "stream": r.stream_id, "fn": fn,
             "subset": [i + 1 for i, b in enumerate(np.asarray(r.subset_indexes).ravel().tolist()) if b],
             "ok": ok, "flags": absflags(r.results[0].results) if ok else [],
             "data": absarr(r.data), "t": absarr(r.tinp), "z": absarr(r.zinp), "lat": absarr(r.lat), "lon": absarr(r.lon)}
        if fn in ("probe", "probe2") and ok and pi < len(probes):
            p = probes[pi]
            pi += 1
            y["probe"] = {"x": absarr(p["inp"]), "t": absarr(p["tinp"]), "z": absarr(p["zinp"]),
                          "lat": absarr(p["lat"]), "lon": absarr(p["lon"])}
        elif fn in ("probe", "probe2") and ok:
            y["probe"] = {"x": [], "t": [], "z": [], "lat": [], "lon": []}
        ev.append(y)
    ev.append({"ev": "endrun", "exc": exc})
    if exc:
        return ev
    # collect in several arrival orders, and one prefix
    n = len(results)
    orders = [list(range(1, n + 1))]
    perms = list(itertools.permutations(range(1, n + 1))) if n <= 4 else []
    if perms:
        rng.shuffle(perms)
        orders += [list(p) for p in perms[:max_orders] if list(p) != orders[0]]
    elif n > 4:
        for _ in range(max_orders):
            p = list(range(1, n + 1))
            rng.shuffle(p)
            orders.append(p)
    if n >= 2:
        orders.append(orders[-1][: n - 1])
    if fixed_orders is not None:
        # arrival orders chosen by TLC (behaviours of the model); indices refer to the spec's yield order, which is
        # the order of the real yields whenever the per-key matching is the identity (checked by the trace spec)
        orders = [od for od in fixed_orders if all(1 <= i <= n for i in od)]
    first = True
    from ioos_qc.results import ContextResult

    def feed(od, merge):
        """the ContextResults in arrival order; with merge, neighbours that belong to the same stream and rows are
        delivered as ONE ContextResult carrying several CallResults (collect_results is a public API)"""
        out = []
        for i in od:
            r = results[i - 1]
            if (merge and out and out[-1].stream_id == r.stream_id and out[-1].results and r.results
                    and np.array_equal(out[-1].subset_indexes, r.subset_indexes)):
                p = out[-1]
                out[-1] = ContextResult(stream_id=p.stream_id, results=list(p.results) + list(r.results),
                                        subset_indexes=p.subset_indexes, data=p.data, tinp=p.tinp, zinp=p.zinp,
                                        lat=p.lat, lon=p.lon)
            else:
                out.append(r)
        return out
    for k_od, od in enumerate(orders):
        c = {"ev": "collect", "order": od, "direct": False, "first": first, "exc": "", "accL": [], "accD": [], "dkeys": []}
        first = False
        merge = k_od % 2 == 1
        try:
            lst = collect_results(feed(od, merge), how=("list" if k_od % 3 else list))
            for cr in lst:
                c["accL"].append({"stream": cr.stream_id, "fn": fn_of(cr.package, cr.test), "flags": absflags(cr.results),
                                  "data": absarr(cr.data), "t": absarr(cr.tinp), "z": absarr(cr.zinp),
                                  "lat": absarr(cr.lat), "lon": absarr(cr.lon)})
            dct = collect_results(feed(od, merge), how=("dict" if k_od % 3 else dict))
            c["dkeys"] = sorted(str(k) for k in dct)      # the streams the mapping names
            for sid, mods in dct.items():
                for mod, tests in mods.items():
                    for t, v in tests.items():
                        c["accD"].append({"stream": sid, "fn": fn_of(mod, t), "flags": absflags(v)})
        except Exception as e:  # noqa: BLE001
            c["exc"] = type(e).__name__
            c["msg"] = str(e)[:120]
            c["accL"], c["accD"], c["dkeys"] = [], [], []
        ev.append(c)
    return ev


def run_split(table, config, workdir, form="iso"):
    """XarrayStream over a dataset whose variables sit on TWO dimensions: every stream but "b" and every axis variable on
    `time` (as in the "xarray" front end), stream "b" on a dimension of its own that is one element longer and has no time,
    depth or position variable. For the run that is two tables: the library looks inputs up per variable. -> two event
    lists (one per table), each load / yields / endrun / collect; configurations without windows only."""
    install()
    n = len(table["t"])
    bvals = list(table["data"]["b"]) + [table["data"]["b"][0]]
    tb_a = dict(table, data={k: v for k, v in table["data"].items() if k != "b"})
    tb_b = {"t": list(range(n + 1)), "hastime": False, "data": {"b": bvals}, "z": [], "lat": [], "lon": []}
    cfg_a = [{"win": c["win"], "entries": [e for e in c["entries"] if e["stream"] != "b"]} for c in config]
    cfg_b = [{"win": c["win"], "entries": [e for e in c["entries"] if e["stream"] == "b"]} for c in config]
    del PROBE_LOG[:]
    del RUN_LOG[:]
    results, exc = [], ""
    try:
        ds = dataset(tb_a, True)
        ds["b"] = (("obs2",), fl(bvals))
        cfg = Config(config_dict(config, form))
        for r in XarrayStream(ds).run(cfg):
            results.append(r)
    except Exception as e:  # noqa: BLE001
        exc = type(e).__name__ + ": " + str(e)[:100]
    probes, runlog, pi = list(PROBE_LOG), list(RUN_LOG), 0
    parts = {"a": ([], []), "b": ([], [])}
    for k, r in enumerate(results):
        sid, mod, meth = runlog[k] if k < len(runlog) else (r.stream_id, "?", "?")
        fn = fn_of(mod, meth)
        ok = len(r.results) > 0
        y = {"ev": "yield", "stream": r.stream_id, "fn": fn,
             "subset": [i + 1 for i, b in enumerate(np.asarray(r.subset_indexes).ravel().tolist()) if b],
             "ok": ok, "flags": absflags(r.results[0].results) if ok else [],
             "data": absarr(r.data), "t": absarr(r.tinp), "z": absarr(r.zinp), "lat": absarr(r.lat), "lon": absarr(r.lon)}
        if fn in ("probe", "probe2") and ok:
            pr = probes[pi] if pi < len(probes) else None
            pi += 1
            y["probe"] = ({"x": absarr(pr["inp"]), "t": absarr(pr["tinp"]), "z": absarr(pr["zinp"]),
                           "lat": absarr(pr["lat"]), "lon": absarr(pr["lon"])} if pr else
                          {"x": [], "t": [], "z": [], "lat": [], "lon": []})
        key = "b" if r.stream_id == "b" else "a"
        parts[key][0].append(y)
        parts[key][1].append(r)
    out = []
    for key, tb, cf in (("a", tb_a, cfg_a), ("b", tb_b, cfg_b)):
        ys, rs = parts[key]
        ev = [{"ev": "load", "table": tb, "config": cf, "frontend": "xarray_split"}] + ys + [{"ev": "endrun", "exc": exc}]
        if not exc:
            c = {"ev": "collect", "order": list(range(1, len(rs) + 1)), "direct": False, "first": True, "exc": "",
                 "accL": [], "accD": [], "dkeys": []}
            try:
                for cr in collect_results(list(rs), how="list"):
                    c["accL"].append({"stream": cr.stream_id, "fn": fn_of(cr.package, cr.test), "flags": absflags(cr.results),
                                      "data": absarr(cr.data), "t": absarr(cr.tinp), "z": absarr(cr.zinp),
                                      "lat": absarr(cr.lat), "lon": absarr(cr.lon)})
                dct = collect_results(list(rs), how="dict")
                c["dkeys"] = sorted(str(k) for k in dct)
                for sid, mods in dct.items():
                    for mod, tests in mods.items():
                        for t, v in tests.items():
                            c["accD"].append({"stream": sid, "fn": fn_of(mod, t), "flags": absflags(v)})
            except Exception as e:  # noqa: BLE001
                c["exc"] = type(e).__name__
                c["accL"], c["accD"], c["dkeys"] = [], [], []
            ev.append(c)
        out.append(ev)
    return out
