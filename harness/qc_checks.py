"""Checks of the QC-function family (C01-C03, C08-C17): all decided with spec/QcTests.tla + QcSession.tla.

spec -> code : MC_QcSession enumerates a bounded space of base/derived calls (invariants checked by TLC),
               the dumped states are executed on the real functions;
code -> spec : seeded random sessions on larger inputs, carriers, the repository's own tests;
verdicts     : always by TLC running spec/Trace_Qc.tla over the recorded events.
"""
from __future__ import annotations

import json
import os
import re

import core
import gen_qc
import tlc

ALL_FNS = gen_qc.FNS
RULE_OWNER = {"gross": "C03", "valid": "C03", "clim": "C08", "spike": "C09", "roc": "C10", "speed": "C10",
              "flat": "C11", "att": "C12", "dens": "C13", "press": "C13", "loc": "C14"}

CONCS = [
    {"unit": 1.0, "off": 0, "tbase": 1577836800},
    {"unit": 0.25, "off": 0, "tbase": 0},
    {"unit": 8.0, "off": -3, "tbase": 1582930800},     # 2020-02-28T23:00:00 (leap-day rollover inside the axis)
    {"unit": 0.25, "off": 100, "tbase": 1577577600},   # 2019-12-29
    {"unit": 1.0, "off": 7, "tbase": 946684799},       # 1999-12-31T23:59:59
    {"unit": 1.0, "off": 0, "tbase": 7258118461},      # 2200-01-01T00:01:01 (nanosecond stamps beyond 2^53)
    {"unit": 0.25, "off": 0, "tbase": -5364662339},    # 1800-01-01T00:01:01
    {"unit": 2.0 ** -16, "off": 0, "tbase": 1577836800},   # tiny magnitudes: products of steps fall below 1e-8 (absolute tolerances)
    {"unit": 4096.0, "off": -1, "tbase": 0},                # large magnitudes
]


def owners(clause, e):
    """which properties a rejected clause of an event speaks to"""
    fn, kind = e["call"]["fn"], e["rel"]["kind"]
    out = set()
    carrier_variant = e.get("variant", False)
    if clause.startswith("c01_"):
        out.add("C01")
        if carrier_variant and clause in ("c01_pure", "c01_again"):
            return {"C01", "C15"}      # purity does not depend on which carrier exposed it
    elif clause == "c02":
        out.add("C02")
    elif clause == "rule":
        out.add(RULE_OWNER[fn])
        if e.get("history"):
            out.add("C01")       # the call re-used a caller-owned parameter object: a wrong result is a history dependence
        if e["obs"]["exc"] and not e.get("exp_raises", False):
            out.add("C01")
    elif clause == "rel":
        if kind == "recall":
            out.add("C01")
        elif kind == "tighten":
            out.add("C16")
        elif kind == "mirror":
            out.add("C13")
        else:
            out.add("C17")
    if carrier_variant:
        out = {"C15"}
    if e.get("origin_shift") and clause in ("rule", "rel"):
        out = {"C17"}            # the same call on another time origin: a constant shift of every timestamp
    return out


def in_domain(prop, e):
    """quantifier domains that exclude some generated calls from a property"""
    c = e["call"]
    n = len(c["lon"]) if c["fn"] in ("loc", "speed") else len(c["x"])
    if prop == "C09":
        return n >= 1
    return True


def describe(e, clause):
    c = e["call"]
    n = len(c["lon"]) if c["fn"] in ("loc", "speed") else len(c["x"])
    return "%s rel=%s n=%d exc=%s conc=%s call=%s obs=%s" % (
        c["fn"], e["rel"]["kind"], n, e["obs"]["exc"], e.get("conc", ""), json.dumps(c)[:220], json.dumps(e["obs"]["out"])[:80])


def sig(e, clause):
    """coarse signature used to group violations (one replay file per signature)"""
    c = e["call"]
    n = len(c["lon"]) if c["fn"] in ("loc", "speed") else len(c["x"])
    keys = sorted(k for k, v in c["p"].items() if v not in ([], -999999999))
    return "%s|%s|%s|n%s|exc=%s|%s|%s" % (clause, c["fn"], e["rel"]["kind"], min(n, 3), e["obs"]["exc"],
                                         ",".join(keys), e.get("variant_label", ""))


# --------------------------------------------------------------------------------------------- executing sessions
class Recorder:
    def __init__(self):
        self.events = []
        self.base_of = {}
        self.sid = 0

    def session(self, steps, conc, lenient=False):
        """steps: list of (rel, call[, extra dict]); first is the base call."""
        import qcexec
        self.sid += 1
        base_id = None
        for st in steps:
            rel, call = st[0], st[1]
            extra = st[2] if len(st) > 2 else {}
            cc = dict(conc)
            cc.update(extra.get("conc", {}))
            obs = qcexec.execute(call, cc)
            obs.pop("msg", None)
            eid = len(self.events) + 1
            e = {"id": eid, "sid": self.sid, "call": call, "rel": rel, "lenient": lenient, "obs": obs,
                 "conc": json.dumps(cc, sort_keys=True), "judge": extra.get("judge", "all")}
            for k in ("variant", "variant_label", "exp", "history", "origin_shift"):
                if k in extra:
                    e[k] = extra[k]
            if rel["kind"] == "base":
                base_id = eid
            else:
                self.base_of[eid] = base_id
            self.events.append(e)


def tlc_view(e):
    return {k: e[k] for k in ("id", "sid", "call", "rel", "lenient", "obs", "judge")}


def py_conforms(exp, obs):
    if exp["ok"]:
        return obs["exc"] == "" and len(obs["out"]) == len(exp["flags"]) and all(
            o in set(fl) for o, fl in zip(obs["out"], exp["flags"]))
    return obs["exc"] != "" and (exp["exc"] == "any" or exp["exc"] == obs["exc"])


def sessions_from_dump(ctx, path, budget):
    """each dumped state is a self-contained session: [base] or [base, derived]"""
    with open(path) as f:
        text = f.read()
    blocks = re.split(r"^State \d+:\s*$", text, flags=re.M)[1:]
    del text
    idx = list(range(len(blocks)))
    ctx.rng.shuffle(idx)
    out, n_ev = [], 0
    for i in idx:
        if n_ev >= budget:
            break
        st = {}
        for part in re.split(r"^/\\ ", blocks[i].strip(), flags=re.M):
            part = part.strip()
            if part:
                name, _, val = part.partition(" = ")
                st[name.strip()] = tlc.parse_value(val)
        if st["base"]["fn"] == "none":
            continue
        if st["rel"]["kind"] == "base":
            out.append([(st["rel"], st["cur"], {"exp": st["exp"]})])
            n_ev += 1
        else:
            out.append([({"kind": "base", "i": 0, "k": 0}, st["base"]), (st["rel"], st["cur"], {"exp": st["exp"]})])
            n_ev += 2
    ctx.cov["dump_states_total"] = ctx.cov.get("dump_states_total", 0) + len(blocks)
    ctx.cov["dump_states_replayed"] = ctx.cov.get("dump_states_replayed", 0) + len(out)
    ctx.cov.setdefault("exhaustive", len(out) >= len(blocks) - 1)
    if len(out) < len(blocks) - 1:
        ctx.cov["exhaustive"] = False
    return out


def fresh_process_obs(e):
    """the observation of one recorded call executed alone in a new interpreter (no earlier calls, no caches)"""
    import subprocess
    import sys
    here = os.path.dirname(os.path.abspath(__file__))
    code = ("import sys, json; sys.path.insert(0, %r); import qcexec; "
            "d = json.load(sys.stdin); o = qcexec.execute(d['call'], json.loads(d['conc'])); o.pop('msg', None); "
            "print('FRESH' + json.dumps({'out': o['out'], 'exc': o['exc']}))" % here)
    try:
        pr = subprocess.run([sys.executable, "-c", code], input=json.dumps({"call": e["call"], "conc": e["conc"]}),
                            capture_output=True, text=True, timeout=120, env=dict(os.environ))
        for line in pr.stdout.splitlines():
            if line.startswith("FRESH"):
                return json.loads(line[5:])
    except Exception:  # noqa: BLE001
        pass
    return None


def judge(ctx, rec, tag):
    """validate all recorded events with TLC, cross-check the dumped expectations, return owned rejects"""
    events = rec.events
    rejects = core.validate_parallel(ctx, [tlc_view(e) for e in events], "Trace_Qc", tag)
    by_id = {}
    for i, cl in rejects:
        by_id.setdefault(i, set()).add(cl)
    # cross-check: TLC's dumped expectation (spec -> code) against TLC's trace verdict (code -> spec)
    for e in events:
        if "exp" in e:
            ok = py_conforms(e["exp"], e["obs"])
            if ok != ("rule" not in by_id.get(e["id"], ())):
                raise tlc.MachineryError("replay comparison and trace verdict disagree on event %r" % e)
    owned, n_total = [], 0
    fresh_checked = []
    for e in events:
        for cl in sorted(by_id.get(e["id"], ())):
            n_total += 1
            if e.get("variant") and cl != "rel" and cl in by_id.get(rec.base_of.get(e["id"]), ()):
                continue    # the base-carrier twin is rejected on the same clause: not a carrier effect
            ow = owners(cl, e)
            if ctx.prop == "C01" and cl == "rule" and "C01" not in ow and len(fresh_checked) < 40 and not e["obs"]["exc"]:
                # C01 quantifies over call histories: a wrong result is C01's business exactly if the very same call gives
                # another result in a fresh process (then it depended on what ran before it)
                fresh_checked.append(e["id"])
                fo = fresh_process_obs(e)
                if fo is not None and (fo["out"] != e["obs"]["out"] or fo["exc"] != e["obs"]["exc"]):
                    e["history"] = True
                    e["fresh_obs"] = fo["out"]
                    ow = ow | {"C01"}
            if ctx.prop in ow and in_domain(ctx.prop, e):
                owned.append((e, cl))
            else:
                for o in ow:
                    ctx.other[o] = ctx.other.get(o, 0) + 1
    return owned


def replay_payload_factory(rec):
    ev = {e["id"]: e for e in rec.events}

    def payload(v):
        e = v["event"]
        steps = []
        b = rec.base_of.get(e["id"])
        if b:
            steps.append(ev[b])
        steps.append(e)
        out = {"kind": "qc", "property": None, "clause": v["clause"], "signature": v["sig"], "count": v["count"],
               "steps": [{k: s[k] for k in ("call", "rel", "lenient", "conc", "obs", "judge")} for s in steps]}
        if e.get("history"):
            # the call used caller-owned parameter objects shared with earlier calls: the replay re-executes those first
            pre = [x for x in rec.events if x["id"] < e["id"] and x.get("history") and x["call"]["fn"] == e["call"]["fn"]]
            if "fresh_obs" in e:
                # found by the fresh-process comparison: whatever ran before it in this process may matter
                pre = [x for x in rec.events if x["id"] < e["id"]]
                out["fresh_process_result"] = e["fresh_obs"]
            out["prelude"] = [{"call": x["call"], "conc": x["conc"]} for x in pre[-80:]]
        return out
    return payload


# --------------------------------------------------------------------------------------------- stages
def stage_mc(ctx, name, fns, rels, maxlen, big, invariants, dump_budget):
    res = core.mc(ctx, name, "MC_QcSession",
                  {"MCFns": fns, "MCRels": rels, "MaxLen": maxlen, "Big": big},
                  invariants=invariants, dump=dump_budget > 0)
    if dump_budget > 0:
        sess = sessions_from_dump(ctx, res["dump_path"], dump_budget)
        os.remove(res["dump_path"])
        return sess
    return []


def stage_random(ctx, fns, count, kinds, size, minlen=0):
    out = []
    for sess in gen_qc.sessions(ctx.seed, fns, count, kinds=kinds, size=size):
        out.append(sess)
    return out


def selftest_binding(ctx, rec):
    """corrupt one recorded flag of an accepted event and expect exactly that event to be rejected"""
    import tv
    cand = [e for e in rec.events if e["obs"]["exc"] == "" and len(e["obs"]["out"]) >= 1 and e["rel"]["kind"] == "base"]
    if not cand:
        return
    e = json.loads(json.dumps(tlc_view(cand[len(cand) // 2])))
    good, _ = tv.validate([e], "Trace_Qc", ctx.prop + "_self0")
    if any(cl == "rule" for _, cl in good):
        return   # that event is itself rejected (a finding); nothing to demonstrate with it
    old = e["obs"]["out"][0]
    e["obs"]["out"][0] = 4 if old != 4 else 1
    bad, _ = tv.validate([e], "Trace_Qc", ctx.prop + "_self1")
    if not any(cl == "rule" for _, cl in bad):
        # the allowed set may contain both: try the remaining flags
        for alt in (1, 2, 3, 9):
            e["obs"]["out"][0] = alt
            bad, _ = tv.validate([e], "Trace_Qc", ctx.prop + "_self1")
            if any(cl == "rule" for _, cl in bad):
                break
        else:
            raise tlc.MachineryError("binding self-test: a corrupted flag was not rejected: %r" % e)
    ctx.cov["binding_selftest"] = "corrupted flag of event %d rejected by Trace_Qc" % e["id"]


def run_qc_check(ctx, spec):
    """spec: dict describing the stages of one property (see PLAN below)"""
    rec = Recorder()
    tier = 0 if ctx.quick else 1
    # 1. model checking + spec->code replay of the dumped states
    for m in spec.get("mc", {}).get(ctx.tier, []):
        sess = stage_mc(ctx, m["name"], m["fns"], m["rels"], m["maxlen"][tier], m["big"][tier],
                        m["inv"], m["budget"][tier])
        for i, s in enumerate(sess):
            rec.session(s, CONCS[i % len(CONCS)] if m.get("vary_conc", True) else CONCS[0])
    n_rp = len(rec.events)
    ctx.cov["events_from_model_states"] = n_rp
    # 2. random sessions on larger inputs (code -> spec)
    r = spec.get("random")
    if r:
        for i, s in enumerate(stage_random(ctx, r["fns"], r["count"][tier], r["kinds"], r["size"][tier])):
            conc = CONCS[(i + ctx.seed) % len(CONCS)]
            if i % 4 == 3:
                # the same series as an integer array (signed, unsigned, masked); the carrier falls back to float64
                # where the concrete values are not whole numbers
                conc = dict(conc, xc=["i64", "u16", "i32", "ma_i64"][(i // 4) % 4],
                            ac=["ma_junk", "ma_mixed", "series_shuf", "list_none"][(i // 4) % 4])      # auxiliary inputs too
            rec.session(s, conc)
    ctx.cov["events_from_random_sessions"] = len(rec.events) - n_rp
    # 3. extra sessions supplied by the property (carriers, short series, ...)
    for fn in spec.get("extra", []):
        fn(ctx, rec)
    owned = judge(ctx, rec, "qc")
    # vacuity guard (TLC's -coverage is unusable on these specs: a 4 s instance took > 5 min with it): every test
    # and every relation kind the plan names must actually occur among the executed events
    by_fn, by_rel = {}, {}
    for e in rec.events:
        by_fn[e["call"]["fn"]] = by_fn.get(e["call"]["fn"], 0) + 1
        by_rel[e["rel"]["kind"]] = by_rel.get(e["rel"]["kind"], 0) + 1
    ctx.cov["events_by_test"] = by_fn
    ctx.cov["events_by_relation"] = by_rel
    want_fns = set()
    want_rels = set()
    for m in spec.get("mc", {}).get(ctx.tier, []):
        if m["budget"][tier] > 0:
            want_fns |= set(m["fns"])
            want_rels |= set(m["rels"])
    if spec.get("random"):
        want_fns |= set(spec["random"]["fns"])
    missing = sorted(want_fns - set(by_fn)) + sorted(want_rels - set(by_rel))
    if missing:
        raise tlc.MachineryError("vacuous run: nothing exercised for %s" % missing)
    # samples for the evidence file
    for e in rec.events[:: max(1, len(rec.events) // 6)][:6]:
        ctx.samples.append({"call": e["call"], "rel": e["rel"], "observed": e["obs"]["out"], "exc": e["obs"]["exc"],
                            "conc": e["conc"]})
    ctx.cov["distinct_nontrivial"] = len({json.dumps(e["call"], sort_keys=True) for e in rec.events
                                          if (len(e["call"]["x"]) + len(e["call"]["lon"])) >= 1})
    selftest_binding(ctx, rec)
    core.report(ctx, owned, sig, replay_payload_factory(rec), describe)
    return rec


# --------------------------------------------------------------------------------------------- extras
def extra_short_series(ctx, rec):
    """C01: every test on empty / one / two point series, all-missing series, None markers"""
    NA = gen_qc.NA
    g = gen_qc.Gen(ctx.seed + 17, size=2)
    for fn in ALL_FNS:
        for rep in range(ctx.pick(12, 60)):
            c = g.base(fn)
            n = rep % 3
            if fn in ("loc", "speed"):
                c["lon"], c["lat"] = c["lon"][:n], c["lat"][:n]
                c["lon"] += [0] * (n - len(c["lon"]))
                c["lat"] += [0] * (n - len(c["lat"]))
                try:
                    c["hop"] = gen_qc.hops(c["lon"], c["lat"])
                except ValueError:      # a distance within 1e-3 of a whole metre: not representable in the model
                    continue
                c["t"] = list(range(0, 3600 * n, 3600)) if fn == "speed" else []
            else:
                c["x"] = (c["x"] + [1, NA])[:n]
                c["x"] += [0] * (n - len(c["x"]))
                if fn in ("roc", "flat", "att", "clim"):
                    c["t"] = [1577836800 + 60 * i for i in range(n)]
                if fn == "dens" or (fn == "clim" and c["z"]):
                    c["z"] = ([5, NA, 10])[:n]
                if fn == "att" and n < 2:
                    c["p"]["minperiod"] = NA
            steps = [({"kind": "base", "i": 0, "k": 0}, c), ({"kind": "recall", "i": 0, "k": 0}, json.loads(json.dumps(c)))]
            rec.session(steps, CONCS[rep % len(CONCS)])
            if fn != "press" and fn != "valid":
                rec.session([steps[0]], dict(CONCS[0], xc="list_none", ac="list_none"))


def extra_short_missing(ctx, rec):
    """C02: series of one, two and three points with EVERY placement of missing values (data; for the position tests both
    coordinates; for the density test also the depth), several parameter sets per test -- the early-return paths"""
    import itertools
    NA = gen_qc.NA
    g = gen_qc.Gen(ctx.seed + 139, size=3)
    for fn in [f for f in ALL_FNS if f != "press"]:
        for rep in range(ctx.pick(3, 12)):
            proto = g.base(fn)
            if fn == "valid" and proto["p"]["kind"] != "num":
                continue
            if fn == "loc" and (proto["p"]["shapes"] != "same" or len(proto["p"]["bbox"]) not in (0, 4)):
                continue
            for n in (1, 2, 3):
                for miss in itertools.product([False, True], repeat=n):
                    c = json.loads(json.dumps(proto))
                    if fn in ("loc", "speed"):
                        pts = [gen_qc.GEO_PTS[(rep + i) % len(gen_qc.GEO_PTS)] for i in range(n)]
                        c["lon"] = [NA if m else p_[0] for p_, m in zip(pts, miss)]
                        c["lat"] = [NA if m else p_[1] for p_, m in zip(pts, miss)]
                        c["hop"] = gen_qc.hops(c["lon"], c["lat"])
                        c["t"] = [3600 * i for i in range(n)] if fn == "speed" else []
                    else:
                        c["x"] = [NA if m else (i * 2 + rep) % 5 for i, m in enumerate(miss)]
                        if fn in ("roc", "flat", "att"):
                            c["t"] = [60 * i for i in range(n)]
                        if fn == "clim":
                            c["t"] = [1577836800 + 86400 * 40 * i for i in range(n)]
                            c["z"] = [5] * n if c["z"] else []
                        if fn == "dens":
                            c["z"] = [NA if (miss[(i + 1) % n] and rep % 2) else i + 1 for i in range(n)]
                        if fn == "att":
                            c["p"]["minperiod"] = NA
                    rec.session([({"kind": "base", "i": 0, "k": 0}, c)], CONCS[rep % 2])


def extra_missing_markers(ctx, rec):
    """C02: the three documented missing markers -- None, NaN and masked elements (also mixed within one masked array)"""
    g = gen_qc.Gen(ctx.seed + 67, size=ctx.pick(8, 14))
    carriers = ["list_none", "ma_nan", "ma_junk", "ma_mixed", "tuple_nan", "ma_i64far", "ma_fill"]
    fns = [f for f in ALL_FNS if f != "press"]
    if ctx.prop != "C02":
        fns = [f for f in fns if f in PLAN[ctx.prop]["random"]["fns"]]      # the rule of this property's tests under every spelling
    for fn in fns:
        for rep in range(ctx.pick(21, 70)):
            c = g.base(fn)
            while fn == "valid" and c["p"]["kind"] == "time":
                c = g.base(fn)       # (every spelling is visited for the numeric form: no repetition is given away)
            xc = carriers[rep % len(carriers)]
            if xc == "ma_fill" and fn not in ("loc", "speed") and c["x"] and all(v != gen_qc.NA for v in c["x"]):
                c["x"][0] = gen_qc.NA            # (the carrier's guard: at least one element is really masked)
            if xc == "ma_i64far" and fn not in ("loc", "speed") and c["x"]:
                # an integer masked array whose masked slots hide values far outside every span / threshold
                if all(v != gen_qc.NA for v in c["x"]):
                    c["x"][g.r.randrange(len(c["x"]))] = gen_qc.NA
            if xc == "ma_mixed" and fn not in ("loc", "speed") and len(c["x"]) >= 2:
                # at least two missing values, so that both kinds (masked, plain NaN) occur in the one array
                for i in g.r.sample(range(len(c["x"])), 2):
                    c["x"][i] = gen_qc.NA
            conc = dict(CONCS[rep % 2], xc=xc, ac=carriers[(rep + 2) % len(carriers)])
            if xc == "ma_i64far":
                conc = dict(CONCS[0], xc=xc, ac=carriers[(rep + 2) % 5])      # whole units, so that the array stays integer
            if fn == "valid" and xc in ("list_none", "tuple_nan"):
                conc["dtype"] = "float64"
            rec.session([({"kind": "base", "i": 0, "k": 0}, c)], conc)


def extra_valid_time_bounds(ctx, rec):
    """C03: datetime-valued valid_range_test with a missing bound spelled None and spelled NaT"""
    g = gen_qc.Gen(ctx.seed + 71, size=8)
    n = 0
    while n < ctx.pick(80, 600):
        c = g.valid()
        if c["p"]["kind"] != "time":
            continue
        if n % 2 == 0:
            c["p"]["lo" if n % 4 == 0 else "hi"] = gen_qc.NA
        n += 1
        rec.session([({"kind": "base", "i": 0, "k": 0}, c)], dict(CONCS[n % len(CONCS)], natbound=(n % 3 != 0)))


def extra_valid_int(ctx, rec):
    """C03: valid_range_test on integer arrays (no NaN available for a missing bound) and on lists with a dtype"""
    g = gen_qc.Gen(ctx.seed + 41, size=8)
    for rep in range(ctx.pick(120, 1500)):
        c = g.valid()
        if c["p"]["kind"] != "num":
            continue
        if rep % 2 == 0:
            c["x"] = [v for v in c["x"] if v != gen_qc.NA]
            conc = {"unit": 1.0, "off": 0, "tbase": 0, "xc": "i64"}
            if rep % 4 == 2:
                # integer data between bounds that are not whole numbers (quarters): data = multiples of 4 quarter units
                c["x"] = [4 * (v // 4) for v in c["x"]] + [0, 4, -4]
                conc = {"unit": 0.25, "off": 0, "tbase": 0, "xc": "i64"}
        else:
            conc = {"unit": 1.0, "off": 0, "tbase": 0, "xc": ["list_none", "list_nan", "tuple_nan"][rep % 3], "dtype": "float64"}
        rec.session([({"kind": "base", "i": 0, "k": 0}, c)], conc)


CARRIER_SETS_QUICK = {
    "xc": ["list_none", "list_nan", "tuple_nan", "f32", "i64", "ma_nan", "ma_junk", "ma_mixed", "ma_fill", "series", "series_idx", "series_shuf", "dask"],
    "tc": ["dt64us", "dt64ms", "dt64s", "pydt", "pdts", "dtindex", "series_naive", "series_utc", "dtindex_utc",
           "series_utc_us", "dtindex_utc_s", "dtindex_us", "epoch_list", "epoch_i64", "epoch_f64"],
}


def extra_carriers(ctx, rec):
    """C15: the same abstract call under every data / auxiliary / time carrier; the first (f64, datetime64[ns])
    execution is the session's base call, every other carrier is a 'recall' of it."""
    g = gen_qc.Gen(ctx.seed + 29, size=ctx.pick(8, 14))
    per_fn = ctx.pick(8, 150)
    uses_time = {"roc", "flat", "att", "speed", "clim"}
    uses_aux = {"dens", "loc", "speed", "clim"}
    for fn in ALL_FNS:
        for rep in range(per_fn):
            c = g.base(fn)
            if fn == "valid" and c["p"]["kind"] == "time":
                continue
            base_conc = dict(CONCS[rep % 2])   # unit 1 / 0.25 (f32-exact)
            steps = [({"kind": "base", "i": 0, "k": 0}, c)]
            variants = []
            for xc in CARRIER_SETS_QUICK["xc"]:
                if fn == "press" and xc == "list_none":
                    continue        # None is not a documented missing marker for this test
                if fn == "valid" and xc in ("list_none", "list_nan", "tuple_nan"):
                    # "if your data is not already numpy-typed you can specify its dtype"
                    variants.append({"xc": xc, "dtype": "float64"})
                    continue
                variants.append({"xc": xc})
            if fn in uses_aux:
                for ac in CARRIER_SETS_QUICK["xc"]:
                    variants.append({"ac": ac})
                variants.append({"xc": "series", "ac": "series"})
                variants.append({"xc": "list_none", "ac": "list_none"})
            if fn in uses_time:
                for tc in CARRIER_SETS_QUICK["tc"]:
                    variants.append({"tc": tc})
                variants.append({"xc": "series", "tc": "series_naive"})
                variants.append({"xc": "series_idx", "tc": "series_utc"})
            variants.append({"spanc": "tuple"})
            if fn == "press":
                variants.append({"via": "gliders"})
            if fn == "clim":
                variants += [{"tspanc": "iso"}, {"tspanc": "dt64"}, {"climc": "object"}]
            # (quick and thorough visit EVERY variant for every repetition; a random sample of ten per repetition made two
            # detections a matter of chance -- the quick tier differs in the number of repetitions only)
            for v in variants:
                label = ",".join("%s=%s" % kv for kv in sorted(v.items()))
                steps.append(({"kind": "recall", "i": 0, "k": 0}, json.loads(json.dumps(c)),
                              {"conc": v, "variant": True, "variant_label": label}))
            rec.session(steps, base_conc)
    # whole-series statistics over a series with a missing value, under every data carrier (a carrier that reduces itself,
    # like a dask array, must not bring its own idea of a mean / range over NaN)
    for rep in range(ctx.pick(12, 60)):
        c = g.base("att")
        if len(c["x"]) < 3 or len(c["t"]) != len(c["x"]):
            continue
        c["p"]["period"], c["p"]["minobs"], c["p"]["minperiod"] = gen_qc.NA, gen_qc.NA, gen_qc.NA
        c["x"] = [v if v != gen_qc.NA else 1 for v in c["x"]]
        c["x"][g.r.randrange(len(c["x"]))] = gen_qc.NA
        steps = [({"kind": "base", "i": 0, "k": 0}, c)]
        for xc in CARRIER_SETS_QUICK["xc"]:
            steps.append(({"kind": "recall", "i": 0, "k": 0}, json.loads(json.dumps(c)),
                          {"conc": {"xc": xc}, "variant": True, "variant_label": "wholeseries,xc=" + xc}))
        rec.session(steps, dict(CONCS[rep % 2]))
    # integer arrays between thresholds / spans that are not whole numbers: data in whole units (multiples of four
    # quarter units), parameters anywhere on the quarter grid
    for fn in ALL_FNS:
        if fn in ("loc", "speed"):
            continue
        for rep in range(ctx.pick(40, 300) if fn in ("valid", "gross") else ctx.pick(20, 80)):
            c = g.base(fn)
            if fn == "valid" and c["p"]["kind"] == "time":
                continue
            c["x"] = [v if v == gen_qc.NA else 4 * (v // 2) for v in c["x"]]
            if fn == "press" and any(v == gen_qc.NA for v in c["x"]):
                continue
            steps = [({"kind": "base", "i": 0, "k": 0}, c)]
            for v in ({"xc": "i64"}, {"xc": "i32"}, {"xc": "ma_i64"}, {"xc": "u16"}):
                steps.append(({"kind": "recall", "i": 0, "k": 0}, json.loads(json.dumps(c)),
                              {"conc": v, "variant": True, "variant_label": "intdata,xc=" + v["xc"]}))
            rec.session(steps, dict(CONCS[1]))
    # single precision at the edge of its resolution: even numbers just above 2^24 are exact in float32, their
    # midpoints and odd differences are not -- arithmetic carried out in the carrier's own precision would show
    for fn in ("spike", "roc", "flat", "dens"):
        for rep in range(ctx.pick(60, 200) if fn == "spike" else ctx.pick(30, 120)):
            c = g.base(fn)
            c["x"] = [v if v == gen_qc.NA else 2 ** 24 + 2 * v for v in c["x"]]
            if fn == "spike" and rep % 3:
                # the midpoint reference with thresholds of the size of the rounding step, so that a reference off by one shows
                c["x"] = [2 ** 24 + 2 * g.r.randint(-6, 6) for _ in range(g.r.randint(6, 12))]
                c["p"]["method"] = "average"
                c["p"]["st"], c["p"]["ft"] = [[1, 1], [1, 2], [2, 1]][rep % 3], [[3, 1], [], [5, 2]][rep % 3]
            steps = [({"kind": "base", "i": 0, "k": 0}, c)]
            for v in ({"xc": "f32"}, {"xc": "series_f32"}, {"xc": "ma_f32"}):
                steps.append(({"kind": "recall", "i": 0, "k": 0}, json.loads(json.dumps(c)),
                              {"conc": v, "variant": True, "variant_label": "f32edge,xc=" + v["xc"]}))
            rec.session(steps, dict(CONCS[0]))
    # sub-second time axes: outside the domain of the rate / window rules (whole-second steps), but the carriers
    # of one and the same axis must still agree with each other
    for fn in ("roc", "flat", "att", "speed"):
        for rep in range(ctx.pick(8, 60)):
            try:
                c = subsecond_call(g, fn)
            except ValueError:
                continue
            conc = dict(CONCS[0], tunit=0.5)
            steps = [({"kind": "base", "i": 0, "k": 0}, c, {"judge": "rel"})]
            for tc in ["dt64us", "dt64ms", "pydt", "pdts", "dtindex", "series_naive", "series_utc", "dtindex_utc",
                       "epoch_list", "epoch_f64"]:
                steps.append(({"kind": "recall", "i": 0, "k": 0}, json.loads(json.dumps(c)),
                              {"conc": {"tc": tc}, "variant": True, "variant_label": "subsecond,tc=" + tc, "judge": "rel"}))
            rec.session(steps, conc)


def subsecond_call(g, fn):
    """a call of a time-based test on a sub-second axis (abstract time unit = half a second)"""
    c = g.base(fn)
    n = g.r.randint(4, 9)
    step = g.r.choice([3, 3, 5, 1])
    off = g.r.choice([0, 1])
    if fn == "flat" or g.r.random() < 0.5:
        c["t"] = [off + i * step for i in range(n)]
    else:
        c["t"], cur = [], off
        for _ in range(n):
            c["t"].append(cur)
            cur += g.r.choice([1, 3, 5])
    if fn == "speed":
        c["lon"] = [g.r.choice([0, 2, 1]) for _ in range(n)]
        c["lat"] = [g.r.choice([0, 2, 1]) for _ in range(n)]
        c["hop"] = gen_qc.hops(c["lon"], c["lat"])
        c["p"] = {"st": [g.r.choice([20000, 40000, 60000]), 1], "ft": [g.r.choice([50000, 80000, 120000]), 1]}
    else:
        c["x"] = [g.r.choice([0, 0, 3, 1, 6]) for _ in range(n)]
    if fn == "att":
        c["p"].update({"minperiod": gen_qc.NA, "period": g.r.choice([2, 3, 4]), "st": [1, 1], "ft": [1, 2]})
    if fn == "flat":
        c["p"].update({"st": g.r.choice([2, 3, 4]), "ft": g.r.choice([4, 5, 6])})
    if fn == "roc":
        dxs = [abs(c["x"][i] - c["x"][i - 1]) for i in range(1, n)]
        c["p"]["thr"] = [2 * max(1, g.r.choice(dxs)), 3]
    return c


def extra_subsecond_shift(ctx, rec):
    """C17: shifting every timestamp by a constant that is not a whole number of seconds (sub-second axes are
    outside the domain of the rate rules, so only the invariance relation is judged)"""
    g = gen_qc.Gen(ctx.seed + 61, size=8)
    for fn in ("roc", "flat", "att", "speed"):
        for rep in range(ctx.pick(10, 80)):
            try:
                c = subsecond_call(g, fn)
            except ValueError:
                continue
            steps = [({"kind": "base", "i": 0, "k": 0}, c, {"judge": "rel"})]
            for k in (1, 3, 7, 2 * 86400 + 1, -5):
                d = json.loads(json.dumps(c))
                d["t"] = [v + k for v in c["t"]]
                steps.append(({"kind": "shiftt", "i": 0, "k": k}, d, {"judge": "rel"}))
            rec.session(steps, dict(CONCS[rep % 2], tunit=0.5))


def extra_tighten_boxes(ctx, rec):
    """C16: bounding boxes tightened until nothing is left inside (an edge moved past the opposite one), on tracks
    that already have positions outside the looser box on either side"""
    g = gen_qc.Gen(ctx.seed + 127, size=ctx.pick(6, 12))
    r = g.r
    for rep in range(ctx.pick(80, 600)):
        c = g.base("loc")
        pts = [(x, y) for x, y in zip(c["lon"], c["lat"]) if x != gen_qc.NA and y != gen_qc.NA]
        if len(c["p"]["bbox"]) not in (0, 4) or c["p"]["shapes"] != "same" or len(pts) < 2 or len(c["lon"]) != len(c["lat"]):
            continue
        xs, ys = sorted(p[0] for p in pts), sorted(p[1] for p in pts)
        loose = [xs[0] + r.choice([0, 1]), ys[0] - r.choice([0, 1]), xs[-1] - r.choice([0, 1]), ys[-1] + r.choice([0, 1])]
        if loose[0] > loose[2] or loose[1] > loose[3]:
            continue
        c["p"]["bbox"] = loose
        steps = [({"kind": "base", "i": 0, "k": 0}, c)]
        mx, my = (loose[0] + loose[2]) // 2, (loose[1] + loose[3]) // 2
        for k, bb in enumerate([[loose[2], loose[1], loose[0], loose[3]], [loose[0], loose[3], loose[2], loose[1]],
                                [mx + 1, loose[1], mx, loose[3]], [mx, my, mx, my], [loose[2], loose[3], loose[0], loose[1]]]):
            if bb[0] <= bb[2] and bb[1] <= bb[3] and bb != [mx, my, mx, my]:
                continue
            d = json.loads(json.dumps(c))
            d["p"]["bbox"] = bb
            steps.append(({"kind": "tighten", "i": 0, "k": k}, d))
        rec.session(steps, CONCS[rep % 2])


def extra_tighten_intdata(ctx, rec):
    """C16: whole-number data held in integer arrays (signed, unsigned) under spans on the quarter grid, some of them
    reaching below zero; base call and tightened calls on the same carrier"""
    g = gen_qc.Gen(ctx.seed + 173, size=ctx.pick(6, 10))
    r = g.r
    for fn in ("valid", "gross"):
        for rep in range(ctx.pick(120, 800)):
            c = g.base(fn)
            if fn == "valid" and c["p"]["kind"] == "time":
                continue
            # data: whole units >= 0 (multiples of four quarter units), no missing values (integer arrays have none)
            c["x"] = [4 * abs(v // 2) if v != gen_qc.NA else 4 * r.randint(0, 3) for v in c["x"]]
            if fn == "valid":
                if c["p"]["lo"] != gen_qc.NA and rep % 2:
                    c["p"]["lo"] -= r.choice([0, 3, 7, 12])          # the looser lower bound may lie below zero
            steps = [({"kind": "base", "i": 0, "k": 0}, c)]
            for k in range(3):
                steps.append(({"kind": "tighten", "i": 0, "k": k}, g.tighten(c)))
            rec.session(steps, dict(CONCS[1], xc=["u16", "i32", "i64", "u16"][rep % 4]))


def extra_box_edges(ctx, rec):
    """C14: positions ONE representable step outside a box edge (strictly outside is FAIL, however little); the track of
    each session is also run as generated"""
    g = gen_qc.Gen(ctx.seed + 181, size=ctx.pick(6, 12))
    for rep in range(ctx.pick(150, 1200)):
        c = g.base("loc")
        if len(c["p"]["bbox"]) not in (0, 4) or c["p"]["shapes"] != "same" or len(c["lon"]) != len(c["lat"]):
            continue
        c["p"]["rmax"] = []
        steps = [({"kind": "base", "i": 0, "k": 0}, c),
                 ({"kind": "recall", "i": 0, "k": 0}, json.loads(json.dumps(c)),
                  {"conc": {"squeeze": True}, "variant_label": "squeeze"})]
        rec.session(steps, CONCS[rep % 2])


def extra_asym_spikes(ctx, rec):
    """C17 (negate, reverse) / C09: spikes whose step in and step out differ in size, thresholds between the two sizes and
    on them, both methods -- the sign of the data and the direction of the series must not matter"""
    g = gen_qc.Gen(ctx.seed + 191, size=ctx.pick(6, 10))
    r = g.r
    for rep in range(ctx.pick(200, 1500)):
        n = r.randint(3, 9)
        x = [r.randint(-4, 4) for _ in range(n)]
        j = r.randint(1, n - 2)
        a, b = r.randint(1, 3), r.randint(3, 7)
        if r.random() < 0.5:
            a, b = b, a
        sgn = r.choice([1, -1])
        x[j] = x[j - 1] + sgn * a
        x[j + 1] = x[j] - sgn * b
        lo, hi = min(a, b), max(a, b)
        st = [r.choice([lo - 1, lo, lo]), 1]
        ft = r.choice([[], [hi - 1, 1], [hi, 1], [lo + hi, 2], [hi + 1, 1]])
        c = gen_qc.mk("spike", x=x, p={"st": st, "ft": ft, "method": "differential" if rep % 3 else "average"})
        steps = [({"kind": "base", "i": 0, "k": 0}, c)]
        for kind in ("negate", "reverse"):
            rel, d = g.derive(c, kind)
            steps.append((rel, d))
        rec.session(steps, CONCS[rep % len(CONCS)])


def extra_tighten_dens_zero(ctx, rec):
    """C16: density thresholds tightened to exactly 0 (from a negative value), on profiles that have inversions: a threshold
    of zero is a threshold"""
    g = gen_qc.Gen(ctx.seed + 193, size=ctx.pick(6, 10))
    r = g.r
    for rep in range(ctx.pick(100, 800)):
        c = g.base("dens")
        if len(c["x"]) < 2 or len(c["x"]) != len(c["z"]):
            continue
        c["p"]["st"] = [r.choice([-1, -2, -1]), r.choice([1, 2])]
        c["p"]["ft"] = r.choice([[], [-3, 1], [-5, 2]])
        steps = [({"kind": "base", "i": 0, "k": 0}, c)]
        for k, (st, ft) in enumerate(([[0, 1], c["p"]["ft"]], [c["p"]["st"], [0, 1]] if c["p"]["ft"] else [[0, 1], [0, 1]],
                                      [[0, 1], [-1, 2]])):
            d = json.loads(json.dumps(c))
            # stricter = larger: every threshold of the derived call is >= the base call's
            if ft and c["p"]["ft"] and ft[0] * c["p"]["ft"][1] < c["p"]["ft"][0] * ft[1]:
                continue
            if not ft and c["p"]["ft"]:
                continue
            d["p"]["st"], d["p"]["ft"] = list(st), list(ft)
            steps.append(({"kind": "tighten", "i": 0, "k": k}, d))
        if len(steps) > 1:
            rec.session(steps, CONCS[rep % 2])


def long_call(g, fn, N):
    """a base call of the generator stretched to N points (its own pattern repeated, every other repetition bumped by
    one so that repetitions differ); None when the generator offers nothing suitable"""
    NA_ = gen_qc.NA
    for _ in range(60):
        c = g.base(fn)
        n0 = len(c["lon"]) if fn in ("loc", "speed") else len(c["x"])
        if (n0 >= 3 and (fn not in ("roc", "flat", "att", "speed", "clim") or len(c["t"]) == n0)
                and (fn != "dens" or len(c["z"]) == n0) and (fn not in ("loc", "speed") or len(c["lat"]) == n0)
                and not (fn == "loc" and (c["p"]["shapes"] != "same" or len(c["p"]["bbox"]) not in (0, 4)))
                and not (fn == "valid" and c["p"]["kind"] != "num")):
            break
    else:
        return None

    def tile(a, bump=0):
        return [a[i % n0] if a[i % n0] == NA_ else a[i % n0] + bump * ((i // n0) % 2) for i in range(N)]
    if fn in ("loc", "speed"):
        c["lon"], c["lat"] = tile(c["lon"]), tile(c["lat"])
        try:
            c["hop"] = gen_qc.hops(c["lon"], c["lat"])
        except ValueError:
            return None      # the repetition joins two positions whose distance is within 1e-3 of a whole metre: skip
    else:
        c["x"] = tile(c["x"], 1)
    if c["t"]:
        if fn == "clim":
            c["t"] = tile(c["t"])
        else:
            step = max(1, min(c["t"][1] - c["t"][0], 100000))      # (N * step must stay a 32-bit integer for TLC)
            c["t"] = [c["t"][0] % 100000 + i * step for i in range(N)]
    if c["z"]:
        c["z"] = tile(c["z"])
    return c


def extra_long_series(ctx, rec):
    """series of a thousand to several thousand points (chunked or blocked processing, a seam every 1024 / 4096
    elements, length-dependent code paths): every flag judged by the rule; for C17 one element next to a power-of-two
    position is changed and the flags outside its neighbourhood must stay (locality)"""
    g = gen_qc.Gen(ctx.seed + 137, size=10)
    fns = ALL_FNS if ctx.prop in ("C17", "C01", "C02") else PLAN[ctx.prop]["random"]["fns"]
    for fn in fns:
        for rep in range(ctx.pick(2, 8)):
            N = [1030, 2051, 4100, 1024, 8200][rep % 5]
            c = long_call(g, fn, N)
            if c is None:
                continue
            steps = [({"kind": "base", "i": 0, "k": 0}, c)]
            if ctx.prop == "C17" and fn not in ("press",) and not (fn == "att" and c["p"]["period"] == gen_qc.NA):
                for pos in (1023, 1024, 1025, 2048, 4096, N - 2):
                    if pos >= N:
                        continue
                    d = json.loads(json.dumps(c))
                    if fn in ("loc", "speed"):
                        d["lon"][pos], d["lat"][pos] = gen_qc.GEO_PTS[(pos + rep) % len(gen_qc.GEO_PTS)]
                        try:
                            d["hop"] = gen_qc.hops(d["lon"], d["lat"])
                        except ValueError:
                            continue
                    else:
                        d["x"][pos] = (0 if d["x"][pos] == gen_qc.NA else d["x"][pos]) + 3
                    steps.append(({"kind": "perturb", "i": pos + 1, "k": 0}, d))
            rec.session(steps, CONCS[rep % 2])


def extra_tighten_spike(ctx, rec):
    """C16: 'adding a suspect threshold never downgrades a FAIL' -- spike calls with a fail threshold only, then with
    a suspect threshold added below it, equal to it and ABOVE it (any suspect threshold is stricter than none)"""
    g = gen_qc.Gen(ctx.seed + 167, size=ctx.pick(8, 14))
    for rep in range(ctx.pick(80, 500)):
        c = g.base("spike")
        if c["p"]["method"] not in ("average", "differential") or not c["p"]["ft"]:
            continue
        c["p"]["st"] = []
        f = c["p"]["ft"]
        steps = [({"kind": "base", "i": 0, "k": 0}, c)]
        for k, st in enumerate(([f[0] + 2 * f[1], f[1]], [f[0], f[1]], [max(0, f[0] - f[1]), f[1]], [f[0] + 5 * f[1], f[1]])):
            d = json.loads(json.dumps(c))
            d["p"]["st"] = st
            steps.append(({"kind": "tighten", "i": 0, "k": k}, d))
        rec.session(steps, CONCS[rep % len(CONCS)])


def extra_tighten_clim(ctx, rec):
    """C16: member lists in which an earlier member has a fail span and a later one has none; the later one then gets
    a fail span of its own (any fail span is stricter than none), also a wide one that fails nothing"""
    g = gen_qc.Gen(ctx.seed + 149, size=ctx.pick(6, 10))
    r = g.r
    for rep in range(ctx.pick(60, 400)):
        c = g.clim(absolute_only=True)
        n = len(c["x"])
        if n == 0 or len(c["t"]) != n:
            continue
        lo, hi = min(c["t"]) - 86400, max(c["t"]) + 86400
        m1 = {"tspan": [lo, hi], "vspan": [0, 1], "fspan": sorted([r.randint(-2, 0), r.randint(1, 2)]), "zspan": [], "period": ""}
        m2 = {"tspan": [lo, hi] if rep % 3 else [lo, (lo + hi) // 2], "vspan": sorted([r.randint(-4, 0), r.randint(1, 4)]),
              "fspan": [], "zspan": [], "period": ""}
        c["p"]["members"] = [m1, m2] if rep % 4 else [m1, m2, dict(m2, vspan=[-1, 2])]
        steps = [({"kind": "base", "i": 0, "k": 0}, c)]
        for k, fs in enumerate(([-5, 5], [-50, 50], sorted([r.randint(-5, -3), r.randint(3, 5)]))):
            d = json.loads(json.dumps(c))
            for m in d["p"]["members"][1:]:
                m["fspan"] = list(fs)
            steps.append(({"kind": "tighten", "i": 0, "k": k}, d))
        rec.session(steps, CONCS[rep % 2])


def extra_flat_fractional(ctx, rec):
    """C11: durations given as floats with a fractional part (179.7 s): the number of steps is floor(duration / step)"""
    g = gen_qc.Gen(ctx.seed + 157, size=ctx.pick(8, 14))
    for rep in range(ctx.pick(150, 1200)):
        c = g.base("flat")
        fr = [0.5, 0.7, 0.999, 0.25][rep % 4]
        rec.session([({"kind": "base", "i": 0, "k": 0}, c)], dict(CONCS[rep % 2], thrfrac=fr, thrtype=("np" if rep % 3 == 0 else "py")))


def extra_tie_locality(ctx, rec):
    """C17 (locality): a spike whose size sits exactly ON a threshold, and single far-away elements changed by various
    amounts (which moves every whole-series statistic: mean, median, extremes); the flags outside the changed element's
    neighbourhood must stay -- an exact tie is where a one-ulp difference shows"""
    g = gen_qc.Gen(ctx.seed + 163, size=ctx.pick(9, 14))
    r = g.r
    for rep in range(ctx.pick(120, 800)):
        n = r.randint(7, 13)
        x = [r.randint(-6, 6) for _ in range(n)]
        j = r.randint(1, n - 2)
        method = "average" if rep % 2 else "differential"
        if method == "average":
            d2 = abs(2 * x[j] - (x[j - 1] + x[j + 1]))          # twice the spike size
            thr = [d2, 2]
        else:
            a, b = x[j] - x[j - 1], x[j + 1] - x[j]
            thr = [min(abs(a), abs(b)), 1]
        if thr[0] == 0:
            continue
        c = {"fn": "spike", "x": x, "t": [], "z": [], "lon": [], "lat": [], "hop": [],
             "p": {"st": thr, "ft": [thr[0] + thr[1], thr[1]] if rep % 3 else [], "method": method}}
        steps = [({"kind": "base", "i": 0, "k": 0}, c)]
        far = [k for k in range(n) if abs(k - j) >= 3]
        for k in r.sample(far, min(3, len(far))):
            d = json.loads(json.dumps(c))
            d["x"][k] = x[k] + r.choice([1, 3, -5, 7, 11])
            steps.append(({"kind": "perturb", "i": k + 1, "k": 0}, d))
        rec.session(steps, CONCS[rep % len(CONCS)])


def extra_far_origins(ctx, rec):
    """C17: the same relative time axis on origins centuries apart (a shift by a constant too large for the model's
    integers, so it is expressed through the concretisation): 1800, 1970, 2020, 2200 -- where nanosecond stamps leave
    the range a double resolves"""
    g = gen_qc.Gen(ctx.seed + 113, size=ctx.pick(8, 14))
    origins = [7258118461, -5364662339, 0, 4102444800 + 3601]
    for fn in ("roc", "flat", "att", "speed"):
        for rep in range(ctx.pick(200, 1500) if fn == "flat" else ctx.pick(40, 300)):
            c = g.base(fn)
            steps = [({"kind": "base", "i": 0, "k": 0}, c)]
            for tb in origins:
                steps.append(({"kind": "recall", "i": 0, "k": 0}, json.loads(json.dumps(c)),
                              {"conc": {"tbase": tb}, "origin_shift": True, "variant_label": "origin=%d" % tb}))
            rec.session(steps, dict(CONCS[rep % 2]))


def extra_repo_tests(ctx, rec):
    """the repository's own tests, run unmodified under the capture plugin: every recorded QC call that is exactly
    representable is validated like any other event (decimal data: ties lenient)"""
    import repo_capture
    evs, stats = repo_capture.events(ctx)
    fns = set(PLAN[ctx.prop].get("repo_fns", ALL_FNS))
    n = 0
    for e in evs:
        if e["call"]["fn"] not in fns:
            continue
        rec.sid += 1
        e = dict(e, id=len(rec.events) + 1, sid=rec.sid, judge="all")
        rec.events.append(e)
        n += 1
    ctx.cov["repo_test_calls"] = dict(stats, validated_here=n)


def extra_shared_config(ctx, rec):
    """C01 (call histories) / C08: ONE caller-owned ClimatologyConfig object used for many calls with different data
    and time arrays, with calls of other tests in between; every call is judged by the rule as if it were the first"""
    g = gen_qc.Gen(ctx.seed + 83, size=ctx.pick(6, 10))
    for k in range(ctx.pick(8, 40)):
        members = [g.member() for _ in range(g.r.choice([1, 2, 3]))]
        for j in range(ctx.pick(5, 8)):
            c = g.clim()
            c["p"]["members"] = json.loads(json.dumps(members))
            rec.session([({"kind": "base", "i": 0, "k": 0}, c, {"history": True})], dict(CONCS[k % 2], climc="shared"))
            t = c["t"]
            if len(t) >= 3 and t == sorted(t) and t[-1] - t[0] > 10 * len(t):
                # a second series of the same length between the same first and last stamp, other stamps in between
                # (anything remembered per "kind of series" instead of per series shows here)
                c2 = json.loads(json.dumps(c))
                mid = sorted(g.r.sample(range(t[0] + 1, t[-1]), len(t) - 2))
                c2["t"] = [t[0]] + mid + [t[-1]]
                rec.session([({"kind": "base", "i": 0, "k": 0}, c2, {"history": True})], dict(CONCS[k % 2], climc="shared"))
            if j % 2:
                other = g.base(g.r.choice(["spike", "gross", "flat"]))
                rec.session([({"kind": "base", "i": 0, "k": 0}, other)], CONCS[0])


def extra_epoch_histories(ctx, rec):
    """C01 (call histories): long runs of calls of the time-based tests whose time axes are equally long but differ in
    content (another cadence), carried as epoch-second lists / arrays built afresh for every call -- what a cache keyed by
    object identity, length or end points would confuse; every call is judged by the rule as if it were the first"""
    g = gen_qc.Gen(ctx.seed + 151, size=8)
    r = g.r
    for fn in ("roc", "flat", "att", "speed"):
        for blk in range(ctx.pick(6, 30)):
            n = r.choice([4, 5, 6, 8])
            protos = []
            for _ in range(60):
                c = g.base(fn)
                m = len(c["lon"]) if fn == "speed" else len(c["x"])
                if m == n and len(c["t"]) == n and (fn != "speed" or len(c["lat"]) == n):
                    protos.append(c)
                if len(protos) == 2:
                    break
            if len(protos) < 2:
                continue
            tc = ["epoch_list", "epoch_i64", "epoch_f64", "epoch_list"][blk % 4]
            for k in range(ctx.pick(8, 16)):
                c = json.loads(json.dumps(protos[k % 2]))
                # same length, same first and last stamp, another cadence in between
                if k % 4 >= 2 and n >= 4:
                    t = c["t"]
                    mid = sorted(set(r.sample(range(t[0] + 1, t[-1]), min(n - 2, max(0, t[-1] - t[0] - 1))))) if t[-1] - t[0] > n else t[1:-1]
                    if len(mid) == n - 2 and fn != "flat":
                        c["t"] = [t[0]] + mid + [t[-1]]
                rec.session([({"kind": "base", "i": 0, "k": 0}, c, {"history": True})], dict(CONCS[0], tc=tc, tbuf=(blk % 2 == 0)))


def extra_shared_spans(ctx, rec):
    """C03 (and C01, call histories): caller-owned span LIST objects re-used by many calls on different data -- open
    bounds, reversed spans, negative data; every call is judged by the rule as if it were the first"""
    g = gen_qc.Gen(ctx.seed + 131, size=ctx.pick(6, 10))
    for k in range(ctx.pick(12, 80)):
        for fn in ("valid", "gross"):
            proto = g.base(fn)
            if fn == "valid" and proto["p"]["kind"] != "num":
                continue
            if fn == "valid" and k % 2:
                proto["p"]["lo" if k % 4 == 1 else "hi"] = gen_qc.NA        # an open bound
            for j in range(ctx.pick(4, 6)):
                c = g.base(fn)
                if fn == "valid" and c["p"]["kind"] != "num":
                    continue
                c["p"] = json.loads(json.dumps(proto["p"]))
                c["x"] = [v if v == gen_qc.NA else v - 4 * (j % 2) for v in c["x"]]
                rec.session([({"kind": "base", "i": 0, "k": 0}, c, {"history": True})], dict(CONCS[0], spanc="shared"))


def extra_att_fractional(ctx, rec):
    """C12: window lengths that are not a whole number of seconds (1.5 s, 2.5 s ...) on half-second axes; time axis
    and window length share the abstract unit, so the window rule (t - test_period, t] is judged exactly"""
    g = gen_qc.Gen(ctx.seed + 97, size=8)
    for rep in range(ctx.pick(150, 1500)):
        c = subsecond_call(g, "att")
        c["p"]["period"] = g.r.choice([1, 2, 3, 5, 7, 9])
        c["p"]["st"] = [g.r.choice([1, 2, 3]), g.r.choice([1, 2])]
        c["p"]["ft"] = [g.r.choice([0, 1, 2]), g.r.choice([1, 2])]
        if g.r.random() < 0.3:
            c["x"][g.r.randrange(len(c["x"]))] = gen_qc.NA
        rec.session([({"kind": "base", "i": 0, "k": 0}, c)], dict(CONCS[0], tunit=0.5, pscale=True))


def extra_big_offsets(ctx, rec):
    """C17: value offsets many orders of magnitude above the differences (exact in float64), where relative
    tolerances or reduced-precision round trips inside a rule would show"""
    g = gen_qc.Gen(ctx.seed + 89, size=ctx.pick(8, 14))
    fns = ("flat", "spike", "roc", "dens")       # not att: a rolling standard deviation is not exact at such offsets
    if ctx.prop != "C17":
        fns = tuple(f for f in fns if f in PLAN[ctx.prop]["random"]["fns"])
    for fn in fns:
        for rep in range(ctx.pick(40, 300)):
            c = g.base(fn)
            steps = [({"kind": "base", "i": 0, "k": 0}, c)]
            # 2^27: beyond what single precision resolves (a midpoint or difference held in float32 would show)
            for k in (2 ** 20, -(2 ** 21), 2 ** 17 + 1, 2 ** 27):
                d = json.loads(json.dumps(c))
                d["x"] = [v if v == gen_qc.NA else v + k for v in c["x"]]
                steps.append(({"kind": "shiftv", "i": 0, "k": k}, d))
            rec.session(steps, CONCS[rep % len(CONCS)])
    if "spike" in fns:
        # dense series without missing values, thresholds of the size of the differences, both methods: at 2^27 a midpoint
        # or a step held in single precision is off by several units
        r = g.r
        for rep in range(ctx.pick(40, 300)):
            n = r.randint(5, 10)
            c = gen_qc.mk("spike", x=[r.randint(-6, 6) for _ in range(n)],
                          p={"st": [r.choice([1, 2, 3]), 2], "ft": r.choice([[], [r.choice([3, 5]), 1]]),
                             "method": "average" if rep % 2 else "differential"})
            steps = [({"kind": "base", "i": 0, "k": 0}, c)]
            for k in (2 ** 27, 2 ** 27 + 5, -(2 ** 26) - 3):
                d = json.loads(json.dumps(c))
                d["x"] = [v + k for v in c["x"]]
                steps.append(({"kind": "shiftv", "i": 0, "k": k}, d))
            rec.session(steps, CONCS[rep % 2])


def extra_purity(ctx, rec):
    """C01: arguments unchanged / repeatability under every carrier (aliasing bugs depend on the carrier)"""
    g = gen_qc.Gen(ctx.seed + 53, size=ctx.pick(6, 12))
    datas = ["ma_nan", "ma_junk", "ma_mixed", "series", "series_idx", "series_shuf", "f32", "list_none", "tuple_nan", "dask", "ma_i64"]
    times = ["dtindex", "series_naive", "series_utc", "series_utc_us", "dtindex_utc_s", "epoch_f64", "epoch_list", "pydt", "dt64s"]
    for fn in ALL_FNS:
        for rep in range(ctx.pick(33, 88)):
            c = g.base(fn)
            if fn == "valid" and c["p"]["kind"] == "time":
                continue
            conc = dict(CONCS[rep % 2])
            xc = datas[rep % len(datas)]
            if xc == "ma_mixed" and c["x"]:
                # at least two missing values: one masked, one a plain unmasked NaN
                for i in g.r.sample(range(len(c["x"])), min(2, len(c["x"]))):
                    c["x"][i] = gen_qc.NA
            if (fn == "press" and xc == "list_none") or (fn == "valid" and xc in ("list_none", "tuple_nan")):
                xc = "ma_junk"
            conc.update({"xc": xc, "ac": datas[(rep + 3) % len(datas)], "tc": times[rep % len(times)]})
            if fn == "clim" and rep % 2:
                conc["climc"] = "object"       # a caller-owned ClimatologyConfig, re-used by the repeat call
            if rep % 3 == 0:
                conc["spanc"] = "tuple"
            rec.session([({"kind": "base", "i": 0, "k": 0}, c)], conc)


# --------------------------------------------------------------------------------------------- the plan
INV_ALL = ["InvC01", "InvC02", "InvRel", "InvRaise"]
ALLK = gen_qc.REL_KINDS
NOPRESS = [f for f in ALL_FNS if f != "press"]


def M(name, fns, rels, maxlen, big=False, budget=15000, inv=INV_ALL):
    return {"name": name, "fns": fns, "rels": rels, "maxlen": (maxlen, maxlen), "big": (big, big),
            "budget": (budget, budget), "inv": inv}


def T(quick, thorough):
    return {"quick": quick, "thorough": thorough}


PLAN = {
    "C01": {"mc": T([M("all_recall", ALL_FNS, ["recall"], 2, budget=20000)],
                    [M("all_recall", ALL_FNS, ["recall"], 3, budget=150000)]),
            "random": {"fns": ALL_FNS, "count": (330, 4400), "kinds": ["recall"], "size": (10, 30)},
            "extra": [extra_short_series, extra_purity, extra_shared_config, extra_shared_spans, extra_epoch_histories, extra_repo_tests]},
    "C02": {"mc": T([M("missing_a", ["gross", "valid", "spike", "roc", "flat", "dens", "loc", "clim"], [], 3, budget=20000),
                     M("missing_b", ["att", "speed"], [], 2, budget=6000)],
                    [M("missing_a", ["gross", "valid", "spike", "roc", "flat", "loc", "clim"], [], 5, big=True, budget=120000),
                     M("missing_b", ["att", "speed", "dens"], [], 4, budget=120000)]),
            "random": {"fns": NOPRESS, "count": (400, 5000), "kinds": [], "size": (8, 24)},
            "extra": [extra_long_series, extra_missing_markers, extra_short_missing]},
    "C03": {"repo_fns": ["gross", "valid"], "mc": T([M("range", ["gross", "valid"], ["shiftboth", "recall"], 1, budget=14000)],
                    [M("range", ["gross", "valid"], ["shiftboth", "tighten"], 1, big=True, budget=150000)]),
            "random": {"fns": ["gross", "valid"], "count": (500, 6000), "kinds": ["recall", "shiftboth"], "size": (10, 30)},
            "extra": [extra_missing_markers, extra_long_series, extra_valid_int, extra_valid_time_bounds, extra_repo_tests, extra_shared_spans]},
    "C08": {"repo_fns": ["clim"], "mc": T([M("clim", ["clim"], ["perturb"], 1, budget=16000)],
                    [M("clim", ["clim"], ["perturb", "tighten"], 1, big=True, budget=160000)]),
            "random": {"fns": ["clim"], "count": (500, 6000), "kinds": ["recall", "shiftt"], "size": (8, 24)},
            "extra": [extra_missing_markers, extra_long_series, extra_repo_tests, extra_shared_config]},
    "C09": {"repo_fns": ["spike"], "mc": T([M("spike4", ["spike"], ["reverse"], 4, budget=10000),
                     M("spike3p", ["spike"], ["perturb"], 3, budget=6000)],
                    [M("spike5", ["spike"], ["reverse"], 5, big=True, budget=120000),
                     M("spike4p", ["spike"], ["perturb", "tighten"], 4, budget=60000)]),
            "random": {"fns": ["spike"], "count": (500, 8000), "kinds": ["reverse", "negate"], "size": (10, 40)},
            "extra": [extra_missing_markers, extra_long_series, extra_big_offsets, extra_repo_tests, extra_asym_spikes]},
    "C10": {"repo_fns": ["roc", "speed"], "mc": T([M("rates", ["roc", "speed"], ["shiftt"], 2, budget=12000),
                     M("roc3", ["roc"], ["perturb"], 3, budget=6000)],
                    [M("rates", ["roc", "speed"], ["shiftt"], 3, big=True, budget=150000),
                     M("roc4", ["roc"], ["perturb", "tighten"], 4, big=True, budget=60000)]),
            "random": {"fns": ["roc", "speed"], "count": (500, 8000), "kinds": ["shiftt"], "size": (10, 30)},
            "extra": [extra_missing_markers, extra_long_series, extra_big_offsets, extra_repo_tests]},
    "C11": {"repo_fns": ["flat"], "mc": T([M("flat5", ["flat"], ["recall"], 5, budget=16000)],
                    [M("flat5", ["flat"], ["shiftv", "tighten"], 5, big=True, budget=150000)]),
            "random": {"fns": ["flat"], "count": (500, 8000), "kinds": ["negate", "shiftt"], "size": (10, 30)},
            "extra": [extra_missing_markers, extra_flat_fractional, extra_long_series, extra_big_offsets, extra_repo_tests]},
    "C12": {"repo_fns": ["att"], "mc": T([M("att3", ["att"], ["shiftt"], 3, budget=16000)],
                    [M("att4", ["att"], ["shiftt", "shiftv"], 4, big=True, budget=150000)]),
            "random": {"fns": ["att"], "count": (400, 6000), "kinds": ["shiftv"], "size": (8, 24)},
            "extra": [extra_missing_markers, extra_long_series, extra_repo_tests, extra_att_fractional]},
    "C13": {"repo_fns": ["dens", "press"], "mc": T([M("profile", ["dens", "press"], ["mirror"], 3, budget=16000)],
                    [M("profile", ["dens", "press"], ["mirror", "perturb"], 4, budget=150000)]),
            "random": {"fns": ["dens", "press"], "count": (500, 8000), "kinds": ["mirror", "shiftv"], "size": (10, 30)},
            "extra": [extra_missing_markers, extra_long_series, extra_big_offsets, extra_repo_tests]},
    "C14": {"repo_fns": ["loc"], "mc": T([M("loc", ["loc"], ["perturb"], 2, budget=14000)],
                    [M("loc", ["loc"], ["perturb", "tighten"], 3, big=True, budget=150000)]),
            "random": {"fns": ["loc"], "count": (500, 8000), "kinds": ["recall"], "size": (10, 30)},
            "extra": [extra_missing_markers, extra_long_series, extra_repo_tests, extra_box_edges]},
    "C15": {"mc": T([M("carrier_rules", ALL_FNS, ["recall"], 1, budget=0)],
                    [M("carrier_rules", ALL_FNS, ["recall"], 2, budget=0)]),
            "extra": [extra_carriers]},
    "C16": {"mc": T([M("tighten_a", ["gross", "valid", "spike", "roc", "flat", "loc"], ["tighten"], 2, budget=14000),
                     M("tighten_b", ["att", "dens", "speed", "clim"], ["tighten"], 1, budget=10000)],
                    [M("tighten_a", ["gross", "valid", "spike", "roc", "flat", "loc"], ["tighten"], 3, big=True, budget=120000),
                     M("tighten_b", ["att", "dens", "speed", "clim"], ["tighten"], 2, budget=120000)]),
            "random": {"fns": NOPRESS, "count": (500, 8000), "kinds": ["tighten", "tighten", "tighten"], "size": (8, 24)},
            "extra": [extra_tighten_boxes, extra_tighten_clim, extra_tighten_spike, extra_tighten_intdata, extra_tighten_dens_zero]},
    "C17": {"mc": T([M("transforms", NOPRESS, ["shiftv", "negate", "shiftt", "shiftboth", "reverse"], 2, budget=14000),
                     M("locality", ["spike", "roc", "flat", "dens", "gross", "loc"], ["perturb"], 3, budget=10000)],
                    [M("transforms", NOPRESS, ["shiftv", "negate", "shiftt", "shiftboth", "reverse"], 3, budget=120000),
                     M("locality", NOPRESS, ["perturb"], 3, budget=120000)]),
            "random": {"fns": NOPRESS, "count": (400, 6000),
                       "kinds": ["shiftv", "negate", "shiftt", "shiftboth", "reverse", "perturb", "perturb"], "size": (8, 24)},
            "extra": [extra_long_series, extra_subsecond_shift, extra_big_offsets, extra_far_origins, extra_tie_locality,
                      extra_asym_spikes]},
}

RULES = {
    "C01": "cases = real calls of the 11 QC functions: every dumped state of the bounded TLC model (series <= MaxLen over a small alphabet incl. missing, full parameter pools) plus seeded random sessions and short/empty series; distinct = distinct abstract call records with at least one element",
}


def check(ctx):
    spec = PLAN[ctx.prop]
    run_qc_check(ctx, spec)
    rule = ("cases are calls of the real QC functions: (a) states of the bounded TLC model MC_QcSession (all base calls and derived "
            "calls of the listed relation kinds, sampled down to the replay budget when larger), (b) seeded random sessions, "
            "(c) property-specific extras; every event is judged by TLC (Trace_Qc); distinct_nontrivial counts distinct abstract "
            "call records with at least one input element")
    return core.finish(ctx, "model_checking", rule)
