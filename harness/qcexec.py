"""Concretise an abstract QC call (the TLA+ record of spec/QcTests.tla) and execute it on the real ioos_qc.

No oracle logic lives here: this module only (a) maps abstract integers to floats / datetimes /
carriers, (b) calls the public function, (c) projects the result back to integers.
"""
from __future__ import annotations

import datetime as _dt
import math
import os
import sys
import warnings

TREE = os.environ.get("IOOS_QC_TREE", "/repo")
if TREE not in sys.path:
    sys.path.insert(0, TREE)

import numpy as np  # noqa: E402
import pandas as pd  # noqa: E402

warnings.filterwarnings("ignore")

import ioos_qc  # noqa: E402
from ioos_qc import argo, axds, qartod  # noqa: E402

assert os.path.realpath(os.path.dirname(os.path.dirname(ioos_qc.__file__))) == os.path.realpath(TREE), (
    "ioos_qc imported from %s, expected tree %s" % (ioos_qc.__file__, TREE))

NA = -999999999

DEFAULT_CONC = {"unit": 1.0, "off": 0, "tbase": 1577836800,  # 2020-01-01T00:00:00
                "xc": "f64", "ac": "f64", "tc": "dt64ns", "spanc": "list", "pc": "kw"}

DATA_CARRIERS = ["list_none", "list_nan", "tuple_nan", "f64", "f32", "i64", "i32", "u16", "ma_i64", "ma_i64far", "ma_fill", "series_f32", "ma_f32", "ma_nan", "ma_junk", "ma_mixed", "series_shuf",
                 "series", "series_idx", "dask"]
TIME_CARRIERS = ["dt64ns", "dt64us", "dt64ms", "dt64s", "pydt", "pdts", "dtindex", "series_naive",
                 "series_utc", "dtindex_utc", "series_utc_us", "dtindex_utc_s", "dtindex_us", "epoch_list", "epoch_i64", "epoch_f64"]


SHARED_CLIM = {}


def rat(q, scale=1.0):
    """<<num, den>> -> float (None when absent)."""
    if q is None or len(q) == 0:
        return None
    return (q[0] * scale) / q[1]


def cval(v, conc):
    return conc["off"] + v * conc["unit"]


def carry_data(vals, carrier, conc=None, f=None):
    """vals: list of ints with NA. f maps an int to a float."""
    f = f or (lambda v: float(v))
    fl = [math.nan if v == NA else f(v) for v in vals]
    if carrier == "list_none":
        return [None if v == NA else f(v) for v in vals]
    if carrier == "list_nan":
        return fl
    if carrier == "tuple_nan":
        return tuple(fl)
    if carrier == "f64":
        return np.array(fl, dtype=np.float64)
    if carrier == "f32":
        return np.array(fl, dtype=np.float32)
    if carrier == "i64":
        if any(v == NA for v in vals) or any(float(x) != int(x) for x in fl):
            return np.array(fl, dtype=np.float64)
        return np.array([int(x) for x in fl], dtype=np.int64)
    if carrier == "series_f32":
        return pd.Series(np.array(fl, dtype=np.float32))
    if carrier == "ma_f32":
        return np.ma.masked_invalid(np.array(fl, dtype=np.float32))
    if carrier == "u16":
        # unsigned integers: differences computed in the carrier's own dtype would wrap around
        if any(v == NA for v in vals) or any(float(x) != int(x) or x < 0 or x > 65535 for x in fl):
            return np.array(fl, dtype=np.float64)
        return np.array([int(x) for x in fl], dtype=np.uint16)
    if carrier == "ma_fill":
        # a masked array whose fill_value equals one of its PRESENT values (a fill value is not a missing marker)
        pres = [x for x, v in zip(fl, vals) if v != NA]
        a = np.ma.MaskedArray(np.array([(pres[0] if pres else 0.0) if v == NA else x for x, v in zip(fl, vals)], dtype=np.float64),
                              mask=[v == NA for v in vals])
        if pres:
            a.fill_value = pres[-1]
        return a
    if carrier == "ma_i64far":
        if any(float(x) != int(x) for x, v in zip(fl, vals) if v != NA):
            return np.ma.MaskedArray(np.array([1234.5 if v == NA else x for x, v in zip(fl, vals)], dtype=np.float64),
                                     mask=[v == NA for v in vals])
        junk = [-99999, 99999]
        return np.ma.MaskedArray(np.array([junk[i % 2] if v == NA else int(x) for i, (x, v) in enumerate(zip(fl, vals))], dtype=np.int64),
                                 mask=[v == NA for v in vals])
    if carrier in ("i32", "ma_i64"):
        # integer arrays; missing values only as masked slots (over junk) of the masked variant
        if any(float(x) != int(x) for x, v in zip(fl, vals) if v != NA) or (carrier == "i32" and any(v == NA for v in vals)):
            return np.array(fl, dtype=np.float64)
        if carrier == "i32":
            return np.array([int(x) for x in fl], dtype=np.int32)
        return np.ma.MaskedArray(np.array([77 if v == NA else int(x) for x, v in zip(fl, vals)], dtype=np.int64),
                                 mask=[v == NA for v in vals])
    if carrier == "ma_nan":
        return np.ma.masked_invalid(np.array(fl, dtype=np.float64))
    if carrier == "ma_junk":
        # masked slots are backed by finite junk
        data = np.array([1234.5 if v == NA else f(v) for v in vals], dtype=np.float64)
        return np.ma.MaskedArray(data, mask=[v == NA for v in vals])
    if carrier == "ma_mixed":
        # a masked array in which some missing values are masked (over finite junk) and others are plain unmasked NaN
        miss = [i for i, v in enumerate(vals) if v == NA]
        data = np.array([f(v) if v != NA else (1234.5 if miss.index(i) % 2 == 0 else math.nan)
                         for i, v in enumerate(vals)], dtype=np.float64)
        return np.ma.MaskedArray(data, mask=[v == NA and miss.index(i) % 2 == 0 for i, v in enumerate(vals)])
    if carrier == "series":
        return pd.Series(np.array(fl, dtype=np.float64))
    if carrier == "series_idx":
        return pd.Series(np.array(fl, dtype=np.float64), index=[10 * (i + 3) for i in range(len(fl))])
    if carrier == "series_shuf":
        # labels are a permutation of the positions: any alignment by label instead of by position shows
        return pd.Series(np.array(fl, dtype=np.float64), index=list(range(len(fl) - 1, -1, -1)))
    if carrier == "dask":
        import dask.array as da
        return da.from_array(np.array(fl, dtype=np.float64), chunks=max(1, (len(fl) + 1) // 2))
    raise KeyError(carrier)


def carry_time(secs, carrier, tbase, tunit=1):
    """secs: list of ints (relative time in units of tunit seconds) -> time input."""
    if tunit != 1:
        return carry_time_frac(secs, carrier, tbase, tunit)
    if any(s == NA for s in secs) and carrier == "dt64ns":
        # observations without a time: NaT (only used by the growth check on such inputs)
        return np.array([np.datetime64("NaT") if s == NA else np.datetime64(tbase + s, "s") for s in secs], dtype="datetime64[ns]")
    ep = [tbase + s for s in secs]
    a_s = np.array(ep, dtype="int64").astype("datetime64[s]")
    if carrier == "dt64ns":
        return a_s.astype("datetime64[ns]")
    if carrier == "dt64us":
        return a_s.astype("datetime64[us]")
    if carrier == "dt64ms":
        return a_s.astype("datetime64[ms]")
    if carrier == "dt64s":
        return a_s
    if carrier == "pydt":
        return [_dt.datetime(1970, 1, 1) + _dt.timedelta(seconds=e) for e in ep]
    if carrier == "pdts":
        return [pd.Timestamp(e, unit="s") for e in ep]
    if carrier == "dtindex":
        return pd.DatetimeIndex(a_s.astype("datetime64[ns]"))
    if carrier == "series_naive":
        return pd.Series(a_s.astype("datetime64[ns]"))
    if carrier == "series_utc":
        return pd.Series(pd.DatetimeIndex(a_s.astype("datetime64[ns]")).tz_localize("UTC"))
    if carrier == "dtindex_utc":
        return pd.DatetimeIndex(a_s.astype("datetime64[ns]")).tz_localize("UTC")
    if carrier == "series_utc_us":        # pandas objects keep the unit of the array they are built from
        return pd.Series(pd.DatetimeIndex(a_s.astype("datetime64[us]")).tz_localize("UTC"))
    if carrier == "dtindex_utc_s":
        return pd.DatetimeIndex(a_s).tz_localize("UTC")
    if carrier == "dtindex_us":
        return pd.DatetimeIndex(a_s.astype("datetime64[us]"))
    if carrier == "epoch_list":
        return list(ep)
    if carrier == "epoch_i64":
        return np.array(ep, dtype=np.int64)
    if carrier == "epoch_f64":
        return np.array(ep, dtype=np.float64)
    raise KeyError(carrier)


def carry_time_frac(units, carrier, tbase, tunit):
    """sub-second axes (only used to compare carriers with each other, C15)"""
    ns = np.array([int(round((tbase + u * tunit) * 10**9)) for u in units], dtype="int64")
    a = ns.astype("datetime64[ns]")
    ep = [tbase + u * tunit for u in units]
    if carrier == "dt64ns":
        return a
    if carrier == "dt64us":
        return a.astype("datetime64[us]")
    if carrier == "dt64ms":
        return a.astype("datetime64[ms]")
    if carrier == "pydt":
        return [_dt.datetime(1970, 1, 1) + _dt.timedelta(microseconds=int(n) // 1000) for n in ns]
    if carrier == "pdts":
        return [pd.Timestamp(int(n)) for n in ns]
    if carrier == "dtindex":
        return pd.DatetimeIndex(a)
    if carrier == "series_naive":
        return pd.Series(a)
    if carrier == "series_utc":
        return pd.Series(pd.DatetimeIndex(a).tz_localize("UTC"))
    if carrier == "dtindex_utc":
        return pd.DatetimeIndex(a).tz_localize("UTC")
    if carrier == "epoch_list":
        return [float(e) for e in ep]
    if carrier == "epoch_f64":
        return np.array(ep, dtype=np.float64)
    raise KeyError(carrier)


SHARED_SPANS = {}
TBUFS = {}


def shared(lst, conc):
    """spanc = "shared": one caller-owned list object per distinct span, handed to every call that uses that span
    (a call that writes into it shows in the calls that follow)"""
    if conc.get("spanc") != "shared":
        return lst
    return SHARED_SPANS.setdefault(repr(lst), lst)


def span(s, conc, f):
    if s is None or len(s) == 0:
        return None
    out = [f(v) for v in s]
    return tuple(out) if conc.get("spanc") == "tuple" else shared(list(out), conc)


def canon(o):
    """Canonical, comparable snapshot of an argument (for the 'arguments unchanged' bit)."""
    if isinstance(o, np.ma.MaskedArray):
        return ("ma", o.dtype.str, o.shape, np.asarray(o.data).tobytes(), np.ma.getmaskarray(o).tobytes())
    if isinstance(o, np.ndarray):
        return ("nd", o.dtype.str, o.shape, o.tobytes())
    if isinstance(o, (pd.Series, pd.Index)) and getattr(o.dtype, "tz", None) is not None:
        # tz-aware values: compare the instants (to_numpy() would give fresh Timestamp objects every time)
        vals = (o.dt.tz_convert("UTC") if isinstance(o, pd.Series) else o.tz_convert("UTC")).tz_localize(None) \
            if isinstance(o, pd.Index) else o.dt.tz_convert("UTC").dt.tz_localize(None)
        idx = canon(o.index.to_numpy()) if isinstance(o, pd.Series) else ()
        return ("tzaware", str(o.dtype), canon(np.asarray(vals.to_numpy(), dtype="datetime64[ns]")), idx)
    if isinstance(o, pd.Series):
        return ("series", canon(o.to_numpy()), canon(o.index.to_numpy()), str(o.dtype))
    if isinstance(o, pd.Index):
        return ("index", canon(o.to_numpy()), str(o.dtype))
    if isinstance(o, (list, tuple)):
        return (type(o).__name__, tuple(canon(e) for e in o))
    if isinstance(o, dict):
        return ("dict", tuple((k, canon(v)) for k, v in o.items()))
    if isinstance(o, float) and math.isnan(o):
        return "nan"
    if isinstance(o, qartod.ClimatologyConfig):
        return ("clim", canon(list(o.members)))
    if type(o).__module__.startswith("dask"):
        return ("dask", canon(np.asarray(o.compute())))
    return (type(o).__name__, repr(o))


def build(call, conc):
    """-> (function, kwargs dict). kwargs are concrete python objects."""
    c = dict(DEFAULT_CONC)
    c.update(conc or {})
    fn = call["fn"]
    p = call["p"]
    unit, tb = c["unit"], c["tbase"]
    fv = lambda v: cval(v, c)  # noqa: E731
    X = lambda: carry_data(call["x"], c["xc"], c, fv)  # noqa: E731
    def T():
        fresh = carry_time(call["t"], c["tc"], tb, c.get("tunit", 1))
        if c.get("tbuf") and isinstance(fresh, (list, np.ndarray)) and len(fresh):
            # a caller-owned buffer that is refilled in place for every call (chunked processing): the SAME object, new
            # content of the same length
            key = (len(fresh), c["tc"], str(getattr(fresh, "dtype", "list")))
            buf = TBUFS.setdefault(key, fresh)
            if buf is not fresh:
                buf[:] = fresh
            return buf
        return fresh
    if fn == "gross":
        kw = {"inp": X(), "fail_span": span(p["fail"], c, fv)}
        if len(p["susp"]):
            kw["suspect_span"] = span(p["susp"], c, fv)
        return qartod.gross_range_test, kw
    if fn == "valid":
        if p["kind"] == "time":
            def tv(v):
                return np.datetime64(tb + v, "s").astype("datetime64[ns]")
            inp = np.array([np.datetime64("NaT") if v == NA else tv(v) for v in call["x"]], dtype="datetime64[ns]")
            if c["xc"] == "series":
                inp = pd.Series(inp)
            nobound = np.datetime64("NaT") if c.get("natbound") else None      # both spell "no bound" for datetimes
            vs = [nobound if p["lo"] == NA else tv(p["lo"]), nobound if p["hi"] == NA else tv(p["hi"])]
        else:
            inp = X()
            vs = [None if p["lo"] == NA else fv(p["lo"]), None if p["hi"] == NA else fv(p["hi"])]
        kw = {"inp": inp, "valid_span": tuple(vs) if c.get("spanc") == "tuple" else shared(vs, c),
              "start_inclusive": p["sincl"], "end_inclusive": p["eincl"]}
        if c.get("dtype"):
            kw["dtype"] = np.dtype(c["dtype"])
        return axds.valid_range_test, kw
    if fn == "spike":
        kw = {"inp": X(), "method": p["method"]}
        if len(p["st"]):
            kw["suspect_threshold"] = rat(p["st"], unit)
        if len(p["ft"]):
            kw["fail_threshold"] = rat(p["ft"], unit)
        return qartod.spike_test, kw
    if fn == "roc":
        return qartod.rate_of_change_test, {"inp": X(), "tinp": T(), "threshold": rat(p["thr"], unit)}
    if fn == "flat":
        # thrfrac: durations that are not whole seconds (k = floor(duration / step) does not change: step and the
        # abstract duration are whole seconds, the added fraction is below one second)
        fr = c.get("thrfrac", 0)
        dur = (lambda v: v + fr) if fr else (lambda v: v)
        if fr and c.get("thrtype") == "np":
            dur = lambda v: np.float64(v + fr)  # noqa: E731
        return qartod.flat_line_test, {"inp": X(), "tinp": T(), "suspect_threshold": dur(p["st"]),
                                       "fail_threshold": dur(p["ft"]), "tolerance": rat(p["tol"], unit)}
    if fn == "att":
        kw = {"inp": X(), "tinp": T(), "suspect_threshold": rat(p["st"], unit),
              "fail_threshold": rat(p["ft"], unit), "check_type": p["kind"]}
        if p["period"] != NA:
            # pscale: the window length is given in the abstract time unit too (half seconds -> 1.5, 2.5 ... seconds)
            kw["test_period"] = p["period"] * c["tunit"] if c.get("pscale") else p["period"]
        if p["minobs"] != NA:
            kw["min_obs"] = p["minobs"]
        if p["minperiod"] != NA:
            kw["min_period"] = p["minperiod"]
        return qartod.attenuated_signal_test, kw
    if fn == "dens":
        kw = {"inp": X(), "zinp": carry_data(call["z"], c["ac"])}
        if len(p["st"]):
            kw["suspect_threshold"] = rat(p["st"], unit)
        if len(p["ft"]):
            kw["fail_threshold"] = rat(p["ft"], unit)
        return qartod.density_inversion_test, kw
    if fn == "press":
        if c.get("via") == "gliders":
            from ioos_qc import gliders           # the deprecated alias must give the same flags
            return gliders.pressure_check, {"inp": X()}
        return argo.pressure_increasing_test, {"inp": X()}
    if fn == "loc":
        half = lambda v: v * 0.5  # noqa: E731
        kw = {"lon": carry_data(call["lon"], c["xc"], f=half), "lat": carry_data(call["lat"], c["ac"], f=half)}
        if len(p["bbox"]):
            kw["bbox"] = span(p["bbox"], c, half)
        if len(p["rmax"]):
            kw["range_max"] = rat(p["rmax"])
        if c.get("squeeze") and len(p["bbox"]) in (0, 4) and not len(p["rmax"]):
            # the same track with every position that lies outside the box moved to ONE representable step beyond the
            # edge it violates (still strictly outside: same flags; no range_max, so the hops do not matter)
            x1, y1, x2, y2 = [half(v) for v in p["bbox"]] if len(p["bbox"]) == 4 else [-180.0, -90.0, 180.0, 90.0]
            if x1 <= x2 and y1 <= y2:
                def sq(vals, lo, hi):
                    out = []
                    for v in vals:
                        fv = math.nan if v == NA else half(v)
                        if fv < lo:
                            fv = float(np.nextafter(lo, -np.inf))
                        elif fv > hi:
                            fv = float(np.nextafter(hi, np.inf))
                        out.append(fv)
                    return np.array(out, dtype=np.float64)
                kw["lon"], kw["lat"] = sq(call["lon"], x1, x2), sq(call["lat"], y1, y2)
        if p.get("shapes") == "differ":
            kw["lon"] = np.asarray(np.ma.filled(np.ma.masked_invalid(np.array(
                [math.nan if v is None else v for v in list(kw["lon"])], dtype=np.float64)), np.nan))
            # a row vector or a column vector against the flat latitude (same size, another shape)
            kw["lon"] = kw["lon"].reshape(1, -1) if len(call["lon"]) % 2 else kw["lon"].reshape(-1, 1)
        return qartod.location_test, kw
    if fn == "speed":
        half = lambda v: v * 0.5  # noqa: E731
        return argo.speed_test, {"lon": carry_data(call["lon"], c["xc"], f=half),
                                 "lat": carry_data(call["lat"], c["ac"], f=half), "tinp": T(),
                                 "suspect_threshold": rat(p["st"]), "fail_threshold": rat(p["ft"])}
    if fn == "clim":
        members = []
        for m in p["members"]:
            d = {}
            if m["period"] == "":
                ts = [pd.Timestamp(v, unit="s") for v in m["tspan"]]
                tform = c.get("tspanc", "ts")
                if tform == "iso":
                    ts = [t.isoformat() for t in ts]
                elif tform == "dt64":
                    ts = [t.to_datetime64() for t in ts]
                d["tspan"] = tuple(ts) if c.get("spanc") == "tuple" else list(ts)
            else:
                d["tspan"] = span(m["tspan"], c, int)
                d["period"] = m["period"]
            d["vspan"] = span(m["vspan"], c, fv)
            if len(m["fspan"]):
                d["fspan"] = span(m["fspan"], c, fv)
            if len(m["zspan"]):
                d["zspan"] = span(m["zspan"], c, float)
            members.append(d)
        if c.get("climc") == "shared":
            # one caller-owned ClimatologyConfig object re-used by every call with the same member list (history)
            import json as _json
            key = _json.dumps([p["members"], c["unit"], c["off"], c.get("spanc"), c.get("tspanc")], sort_keys=True)
            if key not in SHARED_CLIM:
                cfg0 = qartod.ClimatologyConfig()
                for d in members:
                    cfg0.add(**d)
                SHARED_CLIM[key] = cfg0
            cfg = SHARED_CLIM[key]
        elif c.get("climc") == "object":
            cfg = qartod.ClimatologyConfig()
            for d in members:
                cfg.add(**d)
        else:
            cfg = members
        # climatology times are absolute epoch seconds already
        kw = {"config": cfg, "inp": X(), "tinp": carry_time(call["t"], c["tc"], 0),
              "zinp": carry_data(call["z"], c["ac"]) if len(call["z"]) else None}
        return qartod.climatology_test, kw
    raise KeyError(fn)


def n_of(call):
    return len(call["lon"]) if call["fn"] in ("loc", "speed") else len(call["x"])


def project(res, n_expected):
    """result array -> observation record"""
    obs = {"exc": "", "out": [], "masked": 0, "shape_ok": True, "alpha_ok": True}
    if type(res).__module__.startswith("dask"):
        res = res.compute()
    if isinstance(res, pd.Series):
        res = res.to_numpy()
    arr = res
    if isinstance(arr, np.ma.MaskedArray):
        obs["masked"] = int(np.ma.getmaskarray(arr).sum())
        arr = np.asarray(arr.data)
    arr = np.asarray(arr)
    obs["shape_ok"] = tuple(arr.shape) == (n_expected,)
    flat = arr.ravel()
    out = []
    for v in flat.tolist():
        try:
            iv = int(v)
            if iv != v:
                iv = -1
        except Exception:
            iv = -1
        out.append(iv)
    obs["out"] = out
    obs["alpha_ok"] = all(v in (1, 2, 3, 4, 9) for v in out)
    return obs


def execute(call, conc=None, repeat=True):
    """Run the real function. Returns the observation record used by the trace specs."""
    try:
        func, kw = build(call, conc)
    except Exception as e:  # machinery failure, never a verdict
        raise RuntimeError("cannot concretise %r: %r" % (call, e)) from e
    before = {k: canon(v) for k, v in kw.items()}
    try:
        with warnings.catch_warnings():
            warnings.simplefilter("ignore")
            with np.errstate(all="ignore"):
                res = func(**kw)
        obs = project(res, n_of(call))
    except Exception as e:  # noqa: BLE001  the error path is an observation too
        obs = {"exc": type(e).__name__, "out": [], "masked": 0, "shape_ok": True, "alpha_ok": True,
               "msg": str(e)[:200]}
    after = {k: canon(v) for k, v in kw.items()}
    obs["same"] = before == after
    obs["again"] = True
    if repeat:
        try:
            with warnings.catch_warnings():
                warnings.simplefilter("ignore")
                with np.errstate(all="ignore"):
                    res2 = func(**kw)
            obs2 = project(res2, n_of(call))
        except Exception as e:  # noqa: BLE001
            obs2 = {"exc": type(e).__name__, "out": []}
        obs["again"] = (obs2["exc"] == obs["exc"] and obs2["out"] == obs["out"])
    return obs
