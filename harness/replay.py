"""./vcheck --replay <file>: re-execute a recorded violation on the tree under test and validate it again with TLC.
exit 1 (and a VIOLATION line) if it is still rejected, 0 if the tree now conforms."""
from __future__ import annotations

import json
import os

import tlc
import tv


def run(path):
    with open(path) as f:
        rp = json.load(f)
    kind = rp["kind"]
    events = []
    if kind == "qc":
        import qcexec
        for st in rp.get("prelude", []):
            qcexec.execute(st["call"], json.loads(st["conc"]))      # earlier calls sharing caller-owned parameter objects
        if rp.get("prelude"):
            print("prelude: %d earlier calls on the same caller-owned parameter objects re-executed" % len(rp["prelude"]))
        for k, st in enumerate(rp["steps"]):
            conc = json.loads(st["conc"])
            obs = qcexec.execute(st["call"], conc)
            msg = obs.pop("msg", None)
            print("step %d: %s rel=%s conc=%s\n   call=%s\n   recorded obs=%s exc=%s\n   now      obs=%s exc=%s %s" % (
                k, st["call"]["fn"], st["rel"]["kind"], st["conc"], json.dumps(st["call"]), st["obs"]["out"], st["obs"]["exc"],
                obs["out"], obs["exc"], msg or ""))
            events.append({"id": k + 1, "sid": 1, "call": st["call"], "rel": st["rel"], "lenient": st["lenient"], "obs": obs,
                           "judge": st.get("judge", "all")})
        module = "Trace_Qc"
    elif kind == "agg":
        import agg_checks
        import random
        rng = random.Random(1)
        for k, st in enumerate(rp["steps"]):
            obs, _ = agg_checks.run_agg(st["vecs"], st["via"], rng)
            print("step %d: via=%s vecs=%s recorded=%s now=%s" % (k, st["via"], st["vecs"], st["obs"]["out"], obs["out"]))
            events.append({"id": k + 1, "sid": 1, "vecs": st["vecs"], "rel": st["rel"], "via": st["via"], "obs": obs})
        module = "Trace_Agg"
    elif kind == "pipeline":
        import pipe_exec
        import random
        wd = tlc.workdir("replay_pipe")
        evs = pipe_exec.run_frontend(rp["frontend"], rp["table"], rp["config"], wd, max_orders=6, rng=random.Random(1))
        for k, e in enumerate(evs):
            e["id"], e["rid"], e["rel"], e["grp"] = k + 1, 1, {"kind": "base"}, 1
            msg = e.pop("msg", None)
            if e["ev"] != "load":
                print("  %s %s" % (e["ev"], json.dumps({x: e[x] for x in e if x not in ("table", "config")})[:300]), msg or "")
        print("frontend=%s\ntable=%s\nconfig=%s" % (rp["frontend"], json.dumps(rp["table"]), json.dumps(rp["config"])))
        events = evs
        module = "Trace_Pipeline"
    elif kind in ("fx", "store", "config"):
        e = rp["event"]
        if kind == "fx":
            import fx_checks
            s = fx_checks.Session()
            if e["ev"] == "eval":
                s.reset()
                s.eval(e["toks"], e["stats"])
            elif e["ev"] == "validate":
                s.validate(e["tokens"])
            elif e["ev"] == "validate_cfg":
                s.validate_cfg([("test%d" % i, entries) for i, entries in enumerate(e["tests"])])
            else:
                print("creator events are replayed by re-running ./vcheck C20 (the synthetic climatology is regenerated from the seed)")
                s.add(e)
            events, module = s.events, "Trace_Fx"
        elif kind == "store":
            import store_checks
            if e["ev"] in ("save", "agg"):
                evs = store_checks.replay_event(e)
                for k, ne in enumerate(evs):
                    print("now:", json.dumps({x: ne[x] for x in ne if x not in ("names", "table", "config", "hist")})[:800], ne.get("msg", ""))
                    ne.pop("msg", None)
                    ne["id"], ne["sess"] = k + 1, 1
                events, module = evs, "Trace_Store"
            else:
                import qcexec  # noqa: F401
                from ioos_qc.utils import cf_safe_name
                ne = {"ev": "cfsafe", "raw": e["raw"], "out": [], "exc": "", "id": 1, "sess": 0}
                try:
                    ne["out"] = list(cf_safe_name("".join(e["raw"])))
                except Exception as ex:  # noqa: BLE001
                    ne["exc"] = type(ex).__name__
                print("now:", json.dumps(ne)[:800])
                events, module = [ne], "Trace_Store"
        else:
            import config_checks
            ne = config_checks.load_event(e["cfg"], e["layout"], e["carrier"], tlc.workdir("replay_cfg"), 0)
            ne["id"], ne["cid"] = 1, 1
            print("now:", json.dumps({k: ne[k] for k in ("layout", "carrier", "exc", "calls", "rt")})[:800])
            events, module = [ne], "Trace_Config"
    else:
        raise tlc.MachineryError("unknown replay kind %r" % kind)
    rejects, _ = tv.validate(events, module, "replay")
    clauses = sorted({cl for _, cl in rejects})
    print("recorded clause: %s ; rejected clauses now: %s" % (rp.get("clause"), clauses))
    if rp.get("clause") in clauses:
        print("VIOLATION property=%s replay=%s" % (rp.get("property") or os.path.basename(os.path.dirname(path)), path))
        return 1
    print("the recorded clause is no longer rejected on this tree")
    return 0
