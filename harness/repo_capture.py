"""Run the repository's own tests unmodified under verif_capture_plugin and turn every recorded QC call that is exactly
representable into an abstract call of spec/QcTests.tla (decimal data scaled to integers, ties lenient)."""
from __future__ import annotations

import math
import os
import pickle
import subprocess
import sys
from fractions import Fraction

import tlc

NA = -999999999
TREE = os.environ.get("IOOS_QC_TREE", "/repo")
FNMAP = {"gross_range_test": "gross", "location_test": "loc", "climatology_test": "clim", "spike_test": "spike",
         "rate_of_change_test": "roc", "flat_line_test": "flat", "attenuated_signal_test": "att",
         "density_inversion_test": "dens", "pressure_increasing_test": "press", "speed_test": "speed", "valid_range_test": "valid"}


class Skip(Exception):
    pass


def run_tests(wd):
    out = os.path.join(wd, "calls.pkl")
    if os.path.exists(out):
        os.remove(out)
    env = dict(os.environ)
    env["VERIF_CAPTURE_OUT"] = out
    env["PYTHONPATH"] = TREE + os.pathsep + os.path.dirname(os.path.abspath(__file__))
    files = ["tests/test_qartod.py", "tests/test_argo.py", "tests/test_axds.py", "tests/test_config_deprecated.py",
             "tests/test_streams.py"]
    pr = subprocess.run([sys.executable, "-m", "pytest", "-q", "-x", "-p", "no:cacheprovider", "-p", "verif_capture_plugin"] + files,
                        cwd=TREE, env=env, capture_output=True, text=True, timeout=1800)
    calls = []
    if os.path.exists(out):
        with open(out, "rb") as f:
            while True:
                try:
                    calls.append(pickle.load(f))
                except EOFError:
                    break
                except Exception:
                    break
    return calls, pr.returncode, pr.stdout[-600:]


def fvals(a):
    """1-D sequence -> list of Fractions / None (missing)"""
    import numpy as np
    import pandas as pd
    if a is None:
        return None
    if type(a).__module__.startswith("dask"):
        a = a.compute()
    if isinstance(a, (pd.Series, pd.Index)):
        a = a.to_numpy()
    if isinstance(a, np.ma.MaskedArray):
        raise Skip("masked array input")       # representable, but the carrier matters: covered by C15
    arr = np.array(a, dtype=object) if isinstance(a, (list, tuple)) else np.asarray(a)
    if arr.ndim != 1:
        raise Skip("not one-dimensional")
    out = []
    for v in arr.tolist():
        if v is None or v is np.ma.masked:
            out.append(None)
            continue
        try:
            f = float(v)
        except Exception:
            raise Skip("non-numeric element")
        if math.isnan(f):
            out.append(None)
        elif math.isinf(f):
            raise Skip("infinite value")
        else:
            out.append(Fraction(repr(f)))
    return out


def scale_of(fracs, limit=2**30):
    s = 1
    for f in fracs:
        if f is not None:
            s = s * f.denominator // math.gcd(s, f.denominator)
    if s > 10**7:
        raise Skip("needs a scale of %d" % s)
    for f in fracs:
        if f is not None and abs(f * s) > limit:
            raise Skip("magnitude")
    return s


def ints(fracs, s):
    return [NA if f is None else int(f * s) for f in fracs]


def rat(v, s=1):
    if v is None:
        return []
    f = Fraction(repr(float(v))) * s
    if abs(f.numerator) > 2**30 or f.denominator > 2**20:
        raise Skip("threshold not representable")
    return [f.numerator, f.denominator]


def secs(t):
    import numpy as np
    import pandas as pd
    from ioos_qc.utils import mapdates
    if type(t).__module__.startswith("dask"):
        t = t.compute()
    a = mapdates(t)
    a = np.asarray(a).astype("datetime64[ns]").astype("int64")
    if a.ndim != 1:
        raise Skip("time not one-dimensional")
    if any(int(x) % 10**9 for x in a.tolist()):
        raise Skip("sub-second times")
    return [int(x) // 10**9 for x in a.tolist()]


def convert(rec):
    """-> (call, lenient) or raises Skip"""
    a = rec["args"]
    if a is None:
        raise Skip("arguments not recorded")
    fn = FNMAP[rec["name"]]
    E = []
    mk = lambda **k: dict({"fn": fn, "x": E, "t": E, "z": E, "lon": E, "lat": E, "hop": E, "p": {}}, **k)  # noqa: E731
    if fn == "gross":
        x = fvals(a["inp"])
        fail = [Fraction(repr(float(v))) for v in a["fail_span"]]
        susp = [Fraction(repr(float(v))) for v in a["suspect_span"]] if a.get("suspect_span") is not None else []
        s = scale_of(x + fail + susp)
        return mk(x=ints(x, s), p={"fail": ints(fail, s), "susp": ints(susp, s)})
    if fn == "spike":
        x = fvals(a["inp"])
        th = [Fraction(repr(float(v))) for v in (a.get("suspect_threshold"), a.get("fail_threshold")) if v is not None]
        s = scale_of(x + th)
        return mk(x=ints(x, s), p={"st": rat(a.get("suspect_threshold"), s), "ft": rat(a.get("fail_threshold"), s),
                                   "method": str(a.get("method", "average"))})
    if fn == "roc":
        x = fvals(a["inp"])
        s = scale_of(x)
        t = secs(a["tinp"])
        t0 = t[0] if t else 0
        return mk(x=ints(x, s), t=[v - t0 for v in t], p={"thr": rat(a["threshold"], s)})
    if fn == "flat":
        x = fvals(a["inp"])
        tol = Fraction(repr(float(a.get("tolerance", 0))))
        s = scale_of(x + [tol])
        t = secs(a["tinp"])
        if len(t) >= 2 and len({t[i + 1] - t[i] for i in range(len(t) - 1)}) != 1:
            raise Skip("irregular axis (outside C11's domain)")
        t0 = t[0] if t else 0
        return mk(x=ints(x, s), t=[v - t0 for v in t],
                  p={"st": int(a["suspect_threshold"]), "ft": int(a["fail_threshold"]), "tol": rat(a.get("tolerance", 0), s)})
    if fn == "att":
        x = fvals(a["inp"])
        s = scale_of(x, limit=20000)
        t = secs(a["tinp"])
        t0 = t[0] if t else 0
        if a.get("min_obs") is not None and a.get("min_period") is not None:
            raise Skip("both min_obs and min_period")
        if not a.get("test_period") and (a.get("min_obs") is not None or a.get("min_period") is not None):
            raise Skip("min_* without test_period")
        return mk(x=ints(x, s), t=[v - t0 for v in t],
                  p={"st": rat(a["suspect_threshold"], s), "ft": rat(a["fail_threshold"], s),
                     "period": int(a["test_period"]) if a.get("test_period") else NA,
                     "minobs": int(a["min_obs"]) if a.get("min_obs") is not None else NA,
                     "minperiod": int(a["min_period"]) if a.get("min_period") is not None else NA,
                     "kind": str(a.get("check_type", "std"))})
    if fn == "dens":
        x, z = fvals(a["inp"]), fvals(a["zinp"])
        th = [Fraction(repr(float(v))) for v in (a.get("suspect_threshold"), a.get("fail_threshold")) if v is not None]
        s, sz = scale_of(x + th), scale_of(z)
        return mk(x=ints(x, s), z=ints(z, sz), p={"st": rat(a.get("suspect_threshold"), s), "ft": rat(a.get("fail_threshold"), s)})
    if fn == "press":
        x = fvals(a["inp"])
        return mk(x=ints(x, scale_of(x)), p={"none": 0})
    if fn in ("loc", "speed"):
        import geo
        lon, lat = fvals(a["lon"]), fvals(a["lat"])
        bbox = list(a.get("bbox", (-180, -90, 180, 90))) if fn == "loc" else []
        bb = [Fraction(repr(float(v))) for v in bbox]
        s = scale_of(lon + lat + bb)
        lo, la = ints(lon, s), ints(lat, s)
        hop = [NA] * len(lo)
        for i in range(1, min(len(lo), len(la))):
            if None in (lon[i], lat[i], lon[i - 1], lat[i - 1]):
                continue
            d = geo.Geodesic.WGS84.Inverse(float(lat[i - 1]), float(lon[i - 1]), float(lat[i]), float(lon[i]))["s12"]
            hop[i] = 0 if d == 0 else math.floor(d)
            if d != 0 and (hop[i] == 0 or abs(d - round(d)) < 1e-3):
                raise Skip("distance too close to a whole metre")
        if fn == "loc":
            return mk(lon=lo, lat=la, hop=hop, p={"bbox": ints(bb, s), "rmax": rat(a.get("range_max")), "shapes": "same"})
        t = secs(a["tinp"])
        t0 = t[0] if t else 0
        return mk(lon=lo, lat=la, hop=hop, t=[v - t0 for v in t], p={"st": rat(a["suspect_threshold"]), "ft": rat(a["fail_threshold"])})
    if fn == "clim":
        import pandas as pd
        from ioos_qc.qartod import ClimatologyConfig
        cfg = a["config"]
        members = list(cfg.members) if isinstance(cfg, ClimatologyConfig) else list(ClimatologyConfig.convert(cfg).members)
        x = fvals(a["inp"])
        z = fvals(a["zinp"]) if a.get("zinp") is not None else []
        vs = []
        for m in members:
            vs += [Fraction(repr(float(v))) for v in m.vspan] + ([Fraction(repr(float(v))) for v in m.fspan] if m.fspan is not None else [])
        zs = []
        for m in members:
            zs += [Fraction(repr(float(v))) for v in m.zspan] if m.zspan is not None else []
        s, sz = scale_of(x + vs), scale_of(z + zs)
        ms = []
        for m in members:
            if m.period is None:
                ts = [int(pd.Timestamp(v).value // 10**9) for v in m.tspan]
                if any(pd.Timestamp(v).value % 10**9 for v in m.tspan):
                    raise Skip("sub-second tspan")
            else:
                ts = [int(v) for v in m.tspan]
            ms.append({"tspan": ts, "period": m.period or "",
                       "vspan": [int(Fraction(repr(float(v))) * s) for v in m.vspan],
                       "fspan": [int(Fraction(repr(float(v))) * s) for v in m.fspan] if m.fspan is not None else [],
                       "zspan": [int(Fraction(repr(float(v))) * sz) for v in m.zspan] if m.zspan is not None else []})
        t = secs(a["tinp"])
        if any(v < 0 or v > 2**31 - 2 for v in t):
            raise Skip("time outside 1970..2038")
        return mk(x=ints(x, s), t=t, z=ints(z, sz), p={"members": ms})
    if fn == "valid":
        import numpy as np
        inp = a["inp"]
        arr = np.asarray(inp.to_numpy() if hasattr(inp, "to_numpy") else inp)
        if arr.dtype.kind == "M":
            x = secs(arr)
            x0 = min(x) if x else 0
            vs = [None if (v is None or (isinstance(v, float) and math.isnan(v)) or str(v) == "NaT") else secs([v])[0] for v in a["valid_span"]]
            return mk(x=[v - x0 for v in x], p={"lo": NA if vs[0] is None else vs[0] - x0, "hi": NA if vs[1] is None else vs[1] - x0,
                                                "sincl": a.get("start_inclusive", True), "eincl": a.get("end_inclusive", False), "kind": "time"})
        x = fvals(inp)
        sp = [None if (v is None or (isinstance(v, float) and math.isnan(v))) else Fraction(repr(float(v))) for v in a["valid_span"]]
        s = scale_of(x + sp)
        return mk(x=ints(x, s), p={"lo": NA if sp[0] is None else int(sp[0] * s), "hi": NA if sp[1] is None else int(sp[1] * s),
                                   "sincl": a.get("start_inclusive", True), "eincl": a.get("end_inclusive", False), "kind": "num"})
    raise Skip("unknown function")


def events(ctx=None):
    """-> (events for Trace_Qc, statistics)"""
    import qcexec
    wd = tlc.workdir("repo_capture")
    calls, rc, tail = run_tests(wd)
    stats = {"recorded_calls": len(calls), "pytest_rc": rc, "skipped": {}, "converted": 0}
    evs = []
    for rec in calls:
        try:
            call = convert(rec)
        except Skip as s:
            k = str(s)
            stats["skipped"][k] = stats["skipped"].get(k, 0) + 1
            continue
        except Exception as ex:  # a conversion problem is never a verdict
            k = "conversion error: %s" % type(ex).__name__
            stats["skipped"][k] = stats["skipped"].get(k, 0) + 1
            continue
        n = len(call["lon"]) if call["fn"] in ("loc", "speed") else len(call["x"])
        if rec["exc"]:
            obs = {"exc": rec["exc"], "out": [], "masked": 0, "shape_ok": True, "alpha_ok": True}
        else:
            obs = qcexec.project(rec["result"], n)
        obs["same"], obs["again"] = True, True      # not observable from outside a finished test run
        evs.append({"id": len(evs) + 1, "sid": len(evs) + 1, "call": call, "rel": {"kind": "base", "i": 0, "k": 0},
                    "lenient": True, "obs": obs, "conc": "recorded from %s.%s in the repository's tests" % (rec["module"], rec["name"])})
        stats["converted"] += 1
    return evs, stats
