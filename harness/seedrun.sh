#!/bin/sh
# seedrun.sh <patch.diff> <property> [more properties...]
# Applies a seeded change to /repo, runs the quick check of each named property, restores /repo.
# Prints "<property> rc=<rc>" per check (rc=1 means the check caught the change).
patch="$1"; shift
cd /repo || exit 2
git diff --quiet || { echo "/repo has uncommitted changes"; exit 2; }
git apply "$patch" || { echo "patch does not apply"; exit 2; }
trap 'git -C /repo checkout -- . ' EXIT INT TERM
for p in "$@"; do
  /verif/vcheck "$p" --tier quick > /verif/.work/logs/seed_$p.log 2>&1
  echo "$p rc=$? $(grep -c '^VIOLATION' /verif/.work/logs/seed_$p.log) violation lines"
done
