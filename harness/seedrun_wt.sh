#!/bin/sh
# seedrun_wt.sh <patch.diff> <property>... : like seedrun.sh but on a scratch worktree (IOOS_QC_TREE), so that /repo
# itself is never touched (use while other runs are reading /repo). The worktree is removed afterwards.
patch="$1"; shift
wt=/tmp/wt_seed_$$
git -C /repo worktree add -q --detach $wt HEAD || exit 2
trap 'git -C /repo worktree remove --force '$wt' >/dev/null 2>&1; git -C /repo worktree prune' EXIT INT TERM
git -C $wt apply "$patch" || { echo "patch does not apply"; exit 2; }
for p in "$@"; do
  IOOS_QC_TREE=$wt /verif/vcheck "$p" --tier quick > /verif/.work/logs/seedwt_$p.log 2>&1
  echo "$p rc=$? $(grep -c '^VIOLATION' /verif/.work/logs/seedwt_$p.log) violation lines"
done
git -C /verif checkout -- evidence 2>/dev/null
