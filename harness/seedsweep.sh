#!/bin/sh
# seedsweep.sh <seed> [props...] : runs quick checks under another VERIF_SEED (robustness against false alarms)
seed=$1; shift
props=${@:-C01 C02 C03 C04 C05 C06 C07 C08 C09 C10 C11 C12 C13 C14 C15 C16 C17 C18 C19 C20}
cd /verif; mkdir -p .work/logs
for p in $props; do
  VERIF_SEED=$seed ./vcheck $p --tier quick > .work/logs/sweep_${seed}_$p.log 2>&1
  echo "seed=$seed $p rc=$? $(grep -c '^VIOLATION' .work/logs/sweep_${seed}_$p.log) violations"
done
git -C /verif checkout -- evidence 2>/dev/null
