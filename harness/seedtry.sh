#!/bin/sh
# seedtry.sh <PID> <n> <property> [nocheck] : a sub-agent's candidate /tmp/mut_<PID>/patch_<n>.diff is confirmed on its scratch
# worktree /tmp/wt_<PID> (demo passes clean / fails patched; repository tests with the patch) and then the quick check of the
# target property is run against a second scratch worktree with private work / evidence directories, so that several
# candidates can be tried at the same time and /repo is never touched.
pid=$1; n=$2; prop=$3
cd /verif
echo "== $pid/$n ($prop)"
[ "$4" = "nocheck" ] || sh harness/confirm_seed.sh /tmp/wt_$pid /tmp/mut_$pid/patch_$n.diff /tmp/mut_$pid/demo_$n.py
wt=/tmp/wt_seedrun_${pid}_$n
git -C /repo worktree add -q --detach $wt HEAD || exit 2
git -C $wt apply /tmp/mut_$pid/patch_$n.diff || echo "APPLY FAILED"
mkdir -p /verif/.work/logs
VERIF_WORKDIR=/verif/.work/s_${pid}_$n VERIF_EVIDENCE_DIR=/verif/.work/s_${pid}_${n}_ev IOOS_QC_TREE=$wt ./vcheck $prop --tier quick > /verif/.work/logs/try_${pid}_$n.log 2>&1
echo "$prop rc=$? $(grep -c '^VIOLATION' /verif/.work/logs/try_${pid}_$n.log) violation lines"
grep -A1 '^VIOLATION' /verif/.work/logs/try_${pid}_$n.log | grep clause= | head -3 | cut -c1-160
git -C /repo worktree remove --force $wt; git -C /repo worktree prune
rm -rf /verif/.work/s_${pid}_$n /verif/.work/s_${pid}_${n}_ev
