"""./vcheck selftest : checks of the machinery itself (no property verdicts)."""
from __future__ import annotations

import datetime
import json
import os

import tlc


def calendar():
    wd = tlc.workdir("selftest_cal")
    out = os.path.join(wd, "cal.ndjson")
    cfg = os.path.join(wd, "c.cfg")
    with open(cfg, "w") as f:
        f.write("INIT Init\nNEXT Next\nCHECK_DEADLOCK FALSE\n")
    res = tlc.run_tlc("CalendarDump", cfg=cfg, env={"CAL_OUT": out, "CAL_FIRST": "0"}, workers=1, tag="selftest_cal")
    tlc.require_clean(res, "CalendarDump")
    n = 0
    epoch = datetime.date(1970, 1, 1)
    for line in open(out):
        r = json.loads(line)
        d = epoch + datetime.timedelta(days=r["d"])
        iso = d.isocalendar()
        want = (d.year, d.month, d.day, d.timetuple().tm_yday, d.weekday(), (d.month - 1) // 3 + 1, iso[1])
        got = (r["y"], r["m"], r["dd"], r["doy"], r["dow"], r["q"], r["w"])
        if want != got:
            raise tlc.MachineryError("Calendar.tla disagrees with datetime on %s: %r vs %r" % (d, got, want))
        n += 1
    print("calendar: %d days agree with datetime (year, month, day, dayofyear, dayofweek, quarter, ISO week)" % n)


def geotable():
    import geo
    if geo.geotable_tla() != open(os.path.join(tlc.SPEC, "GeoTable.tla")).read():
        raise tlc.MachineryError("spec/GeoTable.tla is stale: regenerate with harness/geo.py")
    # geographiclib's own argument order: one degree of longitude on the equator vs one degree of latitude
    a, b = geo.dist_m(0, 0, 2, 0), geo.dist_m(0, 0, 0, 2)
    if not (111319 < a < 111320 and 110574 < b < 110575):
        raise tlc.MachineryError("trusted distance base is off: %r %r" % (a, b))
    print("geotable: fresh; 1 deg lon on the equator = %.2f m, 1 deg lat = %.2f m" % (a, b))


def sany_all():
    n = 0
    for f in sorted(os.listdir(tlc.SPEC)):
        if f.endswith(".tla"):
            ok, out = tlc.sany(f[:-4])
            if not ok:
                raise tlc.MachineryError("SANY rejects %s:\n%s" % (f, out[-1500:]))
            n += 1
    print("sany: %d modules parse" % n)


def run():
    sany_all()
    geotable()
    calendar()
    print("selftest ok")
    return 0
