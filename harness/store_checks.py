"""C19: PandasStore. Spec: spec/Store.tla (+ MC_Store, Trace_Store)."""
from __future__ import annotations

import itertools
import json
import math

import core
import tlc

PROPS = {"C19"}
NA = -999999999
TESTNAME = {"gross": "gross_range_test", "spike": "spike_test", "roc": "rate_of_change_test", "valid": "valid_range_test",
            "press": "pressure_increasing_test"}
MODOF = {"valid": "axds", "press": "argo"}
IDS = ["a", "a.b", "a_b", "1x", "_y", "b", "T-1", "x y"]


def chars(s):
    return list(s)


def project_frame(df, axis_names, data_names):
    import numpy as np
    import pandas as pd
    import pipe_exec
    cols = []
    for name in df.columns:
        col = df[name]
        plain = name in axis_names or name in data_names
        vals = []
        for v in col.tolist():
            if isinstance(v, (pd.Timestamp, np.datetime64)):
                vals.append(NA if pd.isna(v) else pipe_exec.absnum(v))
            elif v is None or v is pd.NaT or (isinstance(v, float) and math.isnan(v)) or v is np.ma.masked:
                vals.append(NA if plain else -1)
            else:
                a = pipe_exec.absnum(v)
                vals.append(a if (plain or a != NA) else -1)
        cols.append({"name": chars(str(name)), "vals": vals})
    return cols


ROLLUP_NAMES = ["rollup", "qc_rollup", "gross_range_test", "spike_test"]     # the last two are names of tests that ran


def run_session(table, config, ops):
    """one PandasStore object driven through ops: ("save", opts) / ("agg",); -> one event per op"""
    import pipe_exec
    from ioos_qc.config import Config
    from ioos_qc.stores import PandasStore
    from ioos_qc.streams import PandasStream
    pipe_exec.install()
    names = {"qartod": chars("qartod"), "axds": chars("axds"), "argo": chars("argo")}
    for sid in table["data"]:
        names[sid] = chars(sid)
    for c in config:
        for en in c["entries"]:
            names[en["fn"]] = chars(TESTNAME[en["fn"]])
            names.setdefault(en["stream"], chars(en["stream"]))

    # ... and the tests that only the filters of a save name (a roll-up may carry such a test's name)
    for op in ops:
        if op[0] == "save":
            for lst in (op[1]["include"], op[1]["exclude"]):
                for it in lst["items"]:
                    if it["kind"] not in ("stream", "rollupname") and it["v"] in TESTNAME:
                        names.setdefault(it["v"], chars(TESTNAME[it["v"]]))

    def conc(lst):
        if not lst["given"]:
            return None
        out = []
        for it in lst["items"]:
            if it["kind"] == "stream":
                out.append(it["v"])
            elif it["kind"] == "test":
                out.append(TESTNAME[it["v"]])
            elif it["kind"] == "rollupname":
                out.append("".join(it["v"]))
            else:
                import importlib
                out.append(getattr(importlib.import_module("ioos_qc." + MODOF.get(it["v"], "qartod")), TESTNAME[it["v"]]))
        return out
    saves = [op[1] for op in ops if op[0] == "save"]
    ax = saves[0]["axes"]          # the axis names belong to the store object: the same for every save of a session
    store, boot = None, ""
    try:
        stream = PandasStream(pipe_exec.frame(table))
        results = list(stream.run(Config(pipe_exec.config_dict(config, "iso"))))
        axes_arg = None
        if "".join(ax["t"]) != "time" or "".join(ax["z"]) != "z":
            axes_arg = {"t": "".join(ax["t"]), "z": "".join(ax["z"]), "y": "".join(ax["y"]), "x": "".join(ax["x"])}
        store = PandasStore(results, axes_arg) if axes_arg else PandasStore(results)
    except Exception as ex:  # noqa: BLE001
        boot = type(ex).__name__
    events, hist, aggs = [], [], []
    for k, op in enumerate(ops):
        if op[0] == "agg":
            name = op[1] if len(op) > 1 else "rollup"
            e = {"ev": "agg", "name": chars(name), "exc": boot, "first": k == 0, "table": table, "config": config, "hist": list(hist)}
            if not boot:
                try:
                    store.compute_aggregate(name=name)
                    if name not in aggs:
                        aggs.append(name)
                except Exception as ex:  # noqa: BLE001
                    e["exc"] = type(ex).__name__
            hist.append(["agg", name])
            events.append(e)
            continue
        opts = op[1]
        e = {"ev": "save", "table": table, "config": config, "opts": opts, "frame": [], "exc": boot, "names": names,
             "rollups": [], "first": k == 0, "hist": list(hist)}
        hist.append(["save", opts])
        if not boot:
            try:
                df = store.save(write_data=opts["write_data"], write_axes=opts["write_axes"],
                                include=conc(opts["include"]), exclude=conc(opts["exclude"]))
                cols = project_frame(df, {"".join(ax[k2]) for k2 in ("t", "z", "y", "x")},
                                     set(table["data"]) if opts["write_data"] else set())
                e["nrows"] = len(df)
                # a roll-up has no stream id: its column is qartod_<name>, whatever the name (test columns carry a stream id)
                rnames = {"qartod_" + a: a for a in ROLLUP_NAMES}
                e["rollups"] = sorted(({"name": chars(rnames["".join(c["name"])]), "vals": c["vals"]} for c in cols
                                       if "".join(c["name"]) in rnames), key=lambda x: x["name"])
                e["frame"] = [c for c in cols if "".join(c["name"]) not in rnames]
            except Exception as ex:  # noqa: BLE001
                e["exc"] = type(ex).__name__
                e["msg"] = str(ex)[:150]
        events.append(e)
    return events


def run_save(table, config, opts, rollup):
    """a fresh store, optionally compute_aggregate, one save -> the save event"""
    return run_session(table, config, ([("agg",)] if rollup else []) + [("save", opts)])[-1]


def replay_event(e):
    """re-run the store session up to and including the recorded event -> its events"""
    ops = [tuple(h) for h in e.get("hist", [])] + ([("agg", "".join(e["name"]))] if e["ev"] == "agg" else [("save", e["opts"])])
    if not any(op[0] == "save" for op in ops):
        ops.append(("save", {"write_data": False, "write_axes": True, "include": {"given": False, "items": []},
                             "exclude": {"given": False, "items": []},
                             "axes": {"t": chars("time"), "z": chars("z"), "y": chars("lat"), "x": chars("lon")}}))
    return run_session(e["table"], e["config"], ops)


def check(ctx):
    import qcexec  # noqa: F401
    from ioos_qc.utils import cf_safe_name
    core.mc(ctx, "store", "MC_Store", {}, invariants=["InvStoreSat", "InvNames", "InvCollision", "InvLife"], properties=["SaveIsPure"], init="MCSInit", nxt="MCSNext")
    r = ctx.rng
    events = []

    def add(e):
        e["id"] = len(events) + 1
        e.pop("msg", None)
        events.append(e)

    # runs: two streams, two contexts, all write flag combinations, include / exclude lists
    pairs = [(a, b) for a in IDS for b in IDS if a != b]
    r.shuffle(pairs)
    pairs = [("a.b", "a_b"), ("a_b", "a.b"), ("a", "a_b"), ("a_b", "a")] + pairs   # colliding ids; one id a prefix of the other
    item_sets = lambda s1, s2: [[], [{"kind": "stream", "v": s1}], [{"kind": "test", "v": "spike"}],  # noqa: E731
                                [{"kind": "func", "v": "gross"}, {"kind": "stream", "v": s2}],
                                [{"kind": "func", "v": "spike"}], [{"kind": "stream", "v": "zzz"}],
                                [{"kind": "test", "v": "valid"}], [{"kind": "func", "v": "valid"}, {"kind": "test", "v": "gross"}]]
    n_cases = ctx.pick(120, 6000)
    k = 0
    sess = 0
    for (s1, s2) in itertools.cycle(pairs):
        if k >= n_cases:
            break
        n = r.randint(2, 6)
        t = [10 * i for i in range(n)]
        tb = {"t": t, "hastime": True, "data": {s1: [r.choice([0, 1, 5, 7]) for _ in range(n)], s2: [r.choice([0, 1, 3]) for _ in range(n)]},
              "z": [r.randint(0, 9) for _ in range(n)], "lat": [r.randint(-5, 5) for _ in range(n)],
              "lon": [r.randint(-5, 5) for _ in range(n)]}
        if r.random() < 0.15:
            tb["z"] = []
        if r.random() < 0.15:
            tb["lat"], tb["lon"] = [], []
        cut = r.choice(t[1:]) if n > 1 else 0
        G = lambda s: {"stream": s, "fn": "gross", "p": {"fail": [0, 4], "susp": []}}  # noqa: E731
        S = lambda s: {"stream": s, "fn": "spike", "p": {"st": [1, 1], "ft": [3, 1], "method": "average"}}  # noqa: E731
        R = lambda s: {"stream": s, "fn": "roc", "p": {"thr": [1, 10]}}  # noqa: E731
        V = lambda s: {"stream": s, "fn": "valid", "p": {"lo": 1, "hi": NA, "sincl": True, "eincl": False, "kind": "num"}}  # noqa: E731
        P = lambda s: {"stream": s, "fn": "press", "p": {"none": 0}}  # noqa: E731
        layout = r.choice(["all", "split", "hole"])
        if layout == "all":
            cfg = [{"win": [NA, NA], "entries": [G(s1), S(s1), G(s2), V(s2)]}]
        elif layout == "split":
            cfg = [{"win": [NA, cut], "entries": [G(s1), S(s1), V(s2)]}, {"win": [cut, NA], "entries": [G(s1), R(s2), V(s1)]}]
        else:
            cfg = [{"win": [NA, cut], "entries": [G(s1), G(s2)]}]
        its = item_sets(s1, s2)
        inc_given, exc_given = r.random() < 0.4, r.random() < 0.4
        if k in (2, 3):
            inc_given, exc_given = (k == 2), (k == 3)      # filter by the shorter id only
        axes = ({"t": chars("time"), "z": chars("z"), "y": chars("lat"), "x": chars("lon")} if r.random() < 0.6 else
                {"t": chars("obs_time"), "z": chars("depth"), "y": chars("y"), "x": chars("x")})
        opts = {"write_data": r.random() < 0.5, "write_axes": r.random() < 0.6, "axes": axes,
                "include": {"given": inc_given, "items": (its[1] if k == 2 else r.choice(its)) if inc_given else []},
                "exclude": {"given": exc_given, "items": (its[1] if k == 3 else r.choice(its)) if exc_given else []}}
        # one store object, a history of operations: saves before and after compute_aggregate (also twice), the same
        # options again, other options (with filters) in between
        plain = dict(opts, include={"given": False, "items": []}, exclude={"given": False, "items": []})
        # filters that name a roll-up by its test name (next to a stream id), as include and as exclude
        rn = {"kind": "rollupname", "v": chars(r.choice(ROLLUP_NAMES[:2]))}
        inc_roll = dict(plain, include={"given": True, "items": [rn, {"kind": "stream", "v": s1}]})
        exc_roll = dict(plain, exclude={"given": True, "items": [rn]})
        other = dict(opts, write_data=not opts["write_data"], write_axes=not opts["write_axes"])
        an = r.choice(ROLLUP_NAMES)
        pool = [("save", opts), ("save", plain), ("save", other), ("agg", "rollup"), ("save", opts), ("agg", an), ("save", plain),
                ("save", inc_roll), ("save", exc_roll), ("agg", "qc_rollup")]
        ops = [("save", opts)] if r.random() < 0.3 else [r.choice(pool) for _ in range(r.randint(2, 6))]
        if not any(op[0] == "save" for op in ops):
            ops.append(("save", plain))
        sess += 1
        for e in run_session(tb, cfg, ops):
            e["sess"] = sess
            add(e)
        k += 1
    # cf_safe_name on every string of length 1..3 (quick) / 1..4 over a class-covering alphabet
    alpha = ["a", "Z", "1", "_", ".", "-", " ", "\u00e9", "\u0663"]      # (a non-ASCII letter and a non-ASCII digit)
    for ln in range(1, ctx.pick(3, 5) + 1):
        for tup in itertools.product(alpha, repeat=ln):
            raw = "".join(tup)
            e = {"ev": "cfsafe", "raw": chars(raw), "out": [], "exc": "", "sess": 0}
            try:
                e["out"] = chars(cf_safe_name(raw))
            except Exception as ex:  # noqa: BLE001
                e["exc"] = type(ex).__name__
            add(e)
    rejects = core.validate_parallel(ctx, events, "Trace_Store", "store", session_key="sess", chunk=1200)
    by = {e["id"]: e for e in events}
    owned = [(by[i], cl) for i, cl in rejects]
    for e in [x for x in events if x["ev"] == "save"][:: max(1, n_cases // 5)][:5]:
        ctx.samples.append({"table": e["table"], "config": e["config"], "opts": e["opts"],
                            "columns": ["".join(c["name"]) for c in e["frame"]], "exc": e["exc"]})
    ctx.cov["distinct_nontrivial"] = len({json.dumps([e["table"], e["config"], e["opts"]], sort_keys=True)
                                          for e in events if e["ev"] == "save"})
    ctx.cov["cf_safe_strings"] = sum(1 for e in events if e["ev"] == "cfsafe")
    # binding self-test
    import tv
    cand = [e for e in events if e["ev"] == "save" and not e["exc"] and any(
        "".join(c["name"]).endswith("test") for c in e["frame"])]
    ok_cand = [e for e in cand if e["id"] not in {i for i, _ in rejects}]
    if ok_cand:
        e = json.loads(json.dumps(ok_cand[0]))
        e["id"] = 1
        col = [c for c in e["frame"] if "".join(c["name"]).endswith("test")][0]
        col["vals"][0] = 4 if col["vals"][0] != 4 else 1
        e["first"], e["rollups"] = True, []
        bad, _ = tv.validate([e], "Trace_Store", "C19_self")
        if not any(cl == "c19_results" for _, cl in bad):
            raise tlc.MachineryError("binding self-test failed for Trace_Store")
        ctx.cov["binding_selftest"] = "a frame with one corrupted flag is rejected (c19_results)"

    def sig(e, cl):
        if e["ev"] == "cfsafe":
            return "%s|cfsafe|first=%s" % (cl, "digit/underscore" if e["raw"][0] in "0123456789_" else "other")
        if e["ev"] == "agg":
            return "%s|agg|exc=%s" % (cl, e["exc"])
        o = e["opts"]
        ids = sorted(e["table"]["data"])
        coll = {"a.b", "a_b"} <= set(ids)
        return "%s|save|exc=%s|include=%s|exclude=%s|collide=%s|z=%s" % (cl, e["exc"], o["include"]["given"], o["exclude"]["given"],
                                                                       coll, bool(e["table"]["z"]))

    core.report(ctx, owned, sig, lambda v: {"kind": "store", "clause": v["clause"], "signature": v["sig"], "count": v["count"],
                                            "event": v["event"]},
                lambda e, cl: json.dumps({k: e[k] for k in e if k not in ("names",)})[:600])
    return core.finish(ctx, "model_checking",
                       "cases are real PandasStream -> PandasStore.save runs over stream ids with CF-illegal characters, all "
                       "write_data / write_axes combinations and include / exclude lists by stream id, test name and function, with "
                       "and without compute_aggregate, plus cf_safe_name on every string up to length 3/4 over a 7-character "
                       "class-covering alphabet; verdicts by TLC (Trace_Store, FrameOK)")
