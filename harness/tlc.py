"""Run TLC / SANY and parse what they print."""
from __future__ import annotations

import os
import re
import shutil
import subprocess
import time

VERIF = os.path.dirname(os.path.dirname(os.path.abspath(__file__)))
SPEC = os.path.join(VERIF, "spec")
# scratch directory (VERIF_WORKDIR lets the seed audit run next to ordinary check runs without sharing scratch files)
WORK = os.environ.get("VERIF_WORKDIR") or os.path.join(VERIF, ".work")
JAR_CP = "/opt/veriftools/tla/tla2tools.jar:/opt/veriftools/tla/CommunityModules-deps.jar"


class MachineryError(Exception):
    """TLC failed for a reason that is not a verdict about ioos_qc (exit 2)."""


def workdir(name):
    d = os.path.join(WORK, name)
    shutil.rmtree(d, ignore_errors=True)
    os.makedirs(d, exist_ok=True)
    return d


_TUPLE = re.compile(r'^<<\s*"(REJECT|HARNESS|DONE|INFO|KF)"')


def _join_tuples(text):
    """TLC pretty-prints long tuples over several lines; join them by bracket matching."""
    out, buf, depth = [], [], 0
    for line in text.splitlines():
        if depth == 0 and not line.startswith("<<"):
            continue
        buf.append(line.strip())
        depth += line.count("<<") - line.count(">>")
        if depth <= 0:
            out.append(" ".join(buf))
            buf, depth = [], 0
    return out


def run_tlc(module, cfg=None, env=None, workers=1, extra=(), timeout=3600, cwd=None, tag=None, heap="6g"):
    """Run TLC on spec/<module>.tla. Returns dict(stdout, wall_s, states, distinct, tuples)."""
    tag = tag or module
    meta = workdir("meta_" + tag)
    # (java.io.tmpdir: TLC leaves an empty tlc-* directory per run in the temp directory; keep them inside the scratch
    # directory that is removed after the run, not in /tmp)
    cmd = ["java", "-XX:+UseParallelGC", "-Xss512m", "-Xmx" + heap, "-Djava.io.tmpdir=" + meta, "-cp", JAR_CP, "tlc2.TLC",
           "-workers", str(workers), "-metadir", meta, "-noGenerateSpecTE"]
    if cfg:
        cmd += ["-config", cfg]
    cmd += list(extra) + [module]
    e = dict(os.environ)
    e.update(env or {})
    t0 = time.time()
    try:
        pr = subprocess.run(cmd, cwd=cwd or SPEC, env=e, capture_output=True, text=True, timeout=timeout)
    except subprocess.TimeoutExpired as ex:
        raise MachineryError("TLC timed out after %ss on %s" % (timeout, module)) from ex
    wall = time.time() - t0
    out = pr.stdout + "\n" + pr.stderr
    shutil.rmtree(meta, ignore_errors=True)
    res = {"stdout": out, "wall_s": wall, "rc": pr.returncode, "cmd": " ".join(cmd)}
    m = re.search(r"(\d+) states generated, (\d+) distinct states found", out)
    if m:
        res["states"] = int(m.group(2))
        res["transitions"] = int(m.group(1))
    m = re.search(r"The depth of the complete state graph search is (\d+)", out)
    if m:
        res["depth"] = int(m.group(1))
    res["tuples"] = [t for t in _join_tuples(out) if _TUPLE.match(t)]
    res["invariant_violated"] = re.findall(r"Invariant (\S+) is violated", out)
    res["error"] = bool(re.search(r"^Error:", out, re.M)) and not res["invariant_violated"]
    return res


def require_clean(res, what):
    if res.get("error") or (res["rc"] != 0 and not res["invariant_violated"]):
        tail = "\n".join(res["stdout"].splitlines()[-40:])
        raise MachineryError("TLC failed on %s:\n%s" % (what, tail))


def parse_tuple(t):
    """'<<"REJECT", 12, "rule">>' -> ["REJECT", 12, "rule"] (flat tuples of ints/strings only)"""
    inner = t.strip()[2:-2]
    parts = re.findall(r'"((?:[^"\\]|\\.)*)"|(-?\d+)', inner)
    return [a if b == "" else int(b) for a, b in parts]


def sany(module):
    pr = subprocess.run(["java", "-cp", JAR_CP, "tla2sany.SANY", module + ".tla"], cwd=SPEC,
                        capture_output=True, text=True)
    return pr.returncode == 0 and "*** Errors" not in pr.stdout, pr.stdout


# ---------------------------------------------------------------------------------------------------------
# TLA+ value text (as printed by -dump / -simulate) -> python
_TOK = re.compile(r'<<|>>|\|->|:>|@@|\.\.|[\[\]{}(),]|"(?:[^"\\]|\\.)*"|-?\d+|[A-Za-z_][A-Za-z0-9_]*')


def parse_value(text):
    """Parse one TLA+ value: records -> dict, tuples/sequences -> list, sets -> list (sorted as printed),
    functions (a :> b @@ ...) -> dict, TRUE/FALSE -> bool."""
    toks = _TOK.findall(text)
    pos = [0]

    def peek():
        return toks[pos[0]] if pos[0] < len(toks) else None

    def take(x=None):
        t = toks[pos[0]]
        if x is not None and t != x:
            raise ValueError("expected %s got %s at %d in %s" % (x, t, pos[0], text[:200]))
        pos[0] += 1
        return t

    def value():
        t = take()
        if t == "<<":
            items = []
            while peek() != ">>":
                items.append(value())
                if peek() == ",":
                    take()
            take(">>")
            return items
        if t == "{":
            items = []
            while peek() != "}":
                items.append(value())
                if peek() == ",":
                    take()
            take("}")
            return items
        if t == "[":
            d = {}
            while peek() != "]":
                k = take()
                take("|->")
                d[k] = value()
                if peek() == ",":
                    take()
            take("]")
            return d
        if t == "(":
            d = {}
            while True:
                k = value()
                take(":>")
                d[k if not isinstance(k, list) else tuple(k)] = value()
                if peek() == "@@":
                    take()
                    continue
                break
            take(")")
            return d
        if t == "TRUE":
            return True
        if t == "FALSE":
            return False
        if t.startswith('"'):
            return t[1:-1]
        if re.fullmatch(r"-?\d+", t):
            if peek() == "..":          # an interval set a..b
                take()
                return list(range(int(t), int(take()) + 1))
            return int(t)
        return t  # model value / identifier

    v = value()
    return v


def parse_dump(path):
    """-dump file -> list of states (dict var -> value)."""
    states = []
    with open(path) as f:
        text = f.read()
    for block in re.split(r"^State \d+:\s*$", text, flags=re.M)[1:]:
        st = {}
        # conjuncts "/\ var = value" possibly spanning lines
        parts = re.split(r"^/\\ ", block.strip(), flags=re.M)
        for part in parts:
            part = part.strip()
            if not part:
                continue
            name, _, val = part.partition(" = ")
            st[name.strip()] = parse_value(val)
        states.append(st)
    return states
