"""Trace validation plumbing: events -> ndjson -> TLC trace spec -> rejected (id, clause) pairs."""
from __future__ import annotations

import json
import os

import tlc


def write_events(events, path):
    with open(path, "w") as f:
        for e in events:
            f.write(json.dumps(e, separators=(",", ":")) + "\n")


_SCHEMAS = {}


def check_format(events, module, sample=150):
    """the trace formats are documented as JSON schemas (spec/trace_formats); a sample of every batch is validated
    so that a malformed event is a machinery error here rather than a confusing TLC message"""
    path = os.path.join(tlc.SPEC, "trace_formats", module + ".schema.json")
    if not os.path.exists(path):
        return
    try:
        import jsonschema
    except ImportError:
        return
    if module not in _SCHEMAS:
        with open(path) as f:
            _SCHEMAS[module] = json.load(f)
    step = max(1, len(events) // sample)
    for e in events[::step]:
        try:
            jsonschema.validate(e, _SCHEMAS[module])
        except jsonschema.ValidationError as ex:
            raise tlc.MachineryError("event %r does not match %s: %s" % (e.get("id"), path, ex.message[:300]))


def validate(events, module, tag, workers=1, timeout=3600, extra_env=None):
    """events: list of dicts with unique integer 'id'. Returns (rejects, info) where rejects is a list of
    (id, clause) and info has TLC statistics. Raises MachineryError unless every line was consumed."""
    check_format(events, module)
    wd = tlc.workdir("tv_" + tag)
    path = os.path.join(wd, "trace.ndjson")
    write_events(events, path)
    env = {"TRACE_FILE": path}
    env.update(extra_env or {})
    res = tlc.run_tlc(module, cfg=module + ".cfg", env=env, workers=workers, timeout=timeout, tag=tag)
    tlc.require_clean(res, module + " on " + path)
    rejects, harness, done = [], [], None
    for t in res["tuples"]:
        v = tlc.parse_tuple(t)
        if v[0] == "REJECT":
            rejects.append((v[1], v[2]))
        elif v[0] == "HARNESS":
            harness.append(v)
        elif v[0] == "DONE":
            done = v[1]
    if done != len(events):
        raise tlc.MachineryError("trace not fully consumed: DONE=%r of %d lines (%s)\n%s" % (
            done, len(events), path, "\n".join(res["stdout"].splitlines()[-30:])))
    if harness:
        raise tlc.MachineryError("harness produced ill-formed events: %r" % harness[:5])
    return rejects, {"wall_s": res["wall_s"], "states": res.get("states", 0), "transitions": res.get("transitions", 0),
                     "trace_file": path, "lines": len(events)}
