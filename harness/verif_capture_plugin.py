"""pytest plugin (lives in /verif, loaded with -p): wraps the public QC test functions from outside and records
every call the repository's own tests make (arguments and result / exception) to $VERIF_CAPTURE_OUT (pickle stream)."""
import functools
import inspect
import os
import pickle

OUT = os.environ.get("VERIF_CAPTURE_OUT")
NAMES = {"qartod": ["gross_range_test", "location_test", "climatology_test", "spike_test", "rate_of_change_test",
                    "flat_line_test", "attenuated_signal_test", "density_inversion_test"],
         "argo": ["pressure_increasing_test", "speed_test"], "axds": ["valid_range_test"]}
_fh = None
_depth = [0]


def _plain(v):
    """picklable stand-ins: dask arrays computed, ClimatologyConfig as a list of member dicts"""
    if type(v).__module__.startswith("dask"):
        return v.compute()
    if type(v).__name__ == "ClimatologyConfig":
        out = []
        for m in v.members:
            d = {"tspan": tuple(m.tspan), "vspan": tuple(m.vspan), "period": m.period}
            if m.fspan is not None:
                d["fspan"] = tuple(m.fspan)
            if m.zspan is not None:
                d["zspan"] = tuple(m.zspan)
            out.append(d)
        return out
    return v


def _wrap(modname, name, fn):
    sig = inspect.signature(fn)

    @functools.wraps(fn)
    def wrapper(*a, **kw):
        if _depth[0] > 0:
            return fn(*a, **kw)
        _depth[0] += 1
        rec = {"module": modname, "name": name, "exc": "", "result": None}
        try:
            try:
                ba = sig.bind(*a, **kw)
                rec["args"] = {k: _plain(v) for k, v in ba.arguments.items()}
            except TypeError:
                rec["args"] = None
            try:
                res = fn(*a, **kw)
                rec["result"] = res
                return res
            except BaseException as e:
                rec["exc"] = type(e).__name__
                raise
        finally:
            _depth[0] -= 1
            try:
                pickle.dump(rec, _fh)
                _fh.flush()
            except Exception as pe:      # unpicklable argument: record the fact, not the data
                pickle.dump({"module": modname, "name": name, "args": None, "exc": rec["exc"], "result": None,
                             "why": repr(pe)[:200]}, _fh)
    wrapper.__verif_wrapped__ = True
    return wrapper


def pytest_configure(config):
    global _fh
    if not OUT:
        return
    _fh = open(OUT, "ab")
    import importlib
    for modname, names in NAMES.items():
        mod = importlib.import_module("ioos_qc." + modname)
        for n in names:
            f = getattr(mod, n)
            if not getattr(f, "__verif_wrapped__", False):
                setattr(mod, n, _wrap(modname, n, f))


def pytest_unconfigure(config):
    if _fh:
        _fh.close()
