#!/bin/sh
# runs every check of the given tier (default quick) sequentially; prints one line per property
tier=${1:-quick}
cd "$(dirname "$0")"
mkdir -p .work/logs
for p in C01 C02 C03 C04 C05 C06 C07 C08 C09 C10 C11 C12 C13 C14 C15 C16 C17 C18 C19 C20; do
  start=$(date +%s)
  ./vcheck $p --tier $tier > .work/logs/$p.$tier.log 2>&1
  rc=$?
  echo "$p rc=$rc $(( $(date +%s) - start ))s $(grep -c '^VIOLATION' .work/logs/$p.$tier.log) violations $(grep -c '^KNOWN-FINDING' .work/logs/$p.$tier.log) known"
done
