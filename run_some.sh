#!/bin/sh
# run_some.sh <tier> <props...>
tier=$1; shift
cd "$(dirname "$0")"; mkdir -p .work/logs
for p in "$@"; do
  start=$(date +%s)
  ./vcheck $p --tier $tier > .work/logs/$p.$tier.log 2>&1
  rc=$?
  echo "$p rc=$rc $(( $(date +%s) - start ))s $(grep -c '^VIOLATION' .work/logs/$p.$tier.log) violations $(grep -c '^KNOWN-FINDING' .work/logs/$p.$tier.log) known"
done
