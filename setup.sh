#!/bin/sh
# Offline setup: nothing to build -- the specs are interpreted by TLC, the harness is plain Python run by /venv/bin/python.
# Sanity: parse every spec module, and regenerate the geodesic table to make sure the trusted base is importable.
set -e
cd "$(dirname "$0")"
mkdir -p .work evidence
for m in spec/*.tla; do
  b=$(basename "$m" .tla)
  (cd spec && java -cp /opt/veriftools/tla/tla2tools.jar:/opt/veriftools/tla/CommunityModules-deps.jar tla2sany.SANY "$b.tla" > ../.work/sany_$b.log 2>&1) || { echo "SANY failed on $b"; cat .work/sany_$b.log; exit 1; }
  if grep -q "\*\*\* Errors" .work/sany_$b.log; then echo "SANY errors in $b"; cat .work/sany_$b.log; exit 1; fi
done
PYTHONPATH=harness /venv/bin/python -c "import geo; import sys; t=geo.geotable_tla(); sys.exit(0 if t==open('spec/GeoTable.tla').read() else 1)" || { echo "GeoTable.tla is stale"; exit 1; }
./vcheck selftest || exit 1
echo "setup ok"
