------------------------------ MODULE Aggregate ------------------------------
(***************************************************************************)
(* C04: the roll-up (qartod_compare / aggregate / PandasStore              *)
(* .compute_aggregate) of k >= 1 equal-length flag vectors.                *)
(*                                                                         *)
(* An entry of a vector is a flag, a value that is not a flag (0, 7, ...)  *)
(* or MASKED (-1: not evaluated; in the implementation the slot is backed  *)
(* by arbitrary memory).  The aggregate holds at every position the entry  *)
(* of highest precedence MISSING < UNKNOWN < GOOD < SUSPECT < FAIL among   *)
(* the flags present, MISSING where nothing remains.                       *)
(*                                                                         *)
(* The session machine starts from a list of vectors and permutes,         *)
(* duplicates or groups (aggregates sub-lists first) them: the aggregate   *)
(* must not change (commutativity, idempotence, associativity).            *)
(***************************************************************************)
EXTENDS AggregateOps

-----------------------------------------------------------------------------
VARIABLES avecs,    \* the vectors the session started with
          acur,     \* the current list of vectors
          arel      \* how acur derives from avecs
avars == <<avecs, acur, arel>>

AInit == avecs = <<>> /\ acur = <<>> /\ arel = [kind |-> "init", groups |-> <<>>]

AStart(vs) ==
    /\ WellFormed(vs)
    /\ avecs' = vs /\ acur' = vs /\ arel' = [kind |-> "base", groups |-> <<>>]

SameBag(a, b) == /\ Len(a) = Len(b)
                 /\ \A v \in Range(a) \cup Range(b) :
                        Cardinality({ j \in 1..Len(a) : a[j] = v }) = Cardinality({ j \in 1..Len(b) : b[j] = v })

\* groups: a sequence of non-empty index sequences into avecs covering every index at least once
GroupsOK(groups, n) ==
    /\ Len(groups) >= 1
    /\ \A g \in 1..Len(groups) : Len(groups[g]) >= 1 /\ \A m \in 1..Len(groups[g]) : groups[g][m] \in 1..n
    /\ \A j \in 1..n : \E g \in 1..Len(groups) : \E m \in 1..Len(groups[g]) : groups[g][m] = j
Grouped(vs, groups) ==
    [g \in 1..Len(groups) |-> Compare([m \in 1..Len(groups[g]) |-> vs[groups[g][m]]])]

ARelOK(r, vs) ==
    CASE r.kind = "perm"  -> SameBag(vs, avecs)
      [] r.kind = "dup"   -> WellFormed(vs) /\ Range(vs) = Range(avecs)
      [] r.kind = "group" -> GroupsOK(r.groups, Len(avecs)) /\ vs = Grouped(avecs, r.groups)
      [] OTHER -> FALSE

ADerive(r, vs) ==
    /\ avecs # <<>>
    /\ ARelOK(r, vs)
    /\ acur' = vs /\ arel' = r /\ UNCHANGED avecs

\* C04 as invariants of the session
InvAggSame   == (avecs # <<>>) => Compare(acur) = Compare(avecs)
InvAggWorst  == (acur # <<>>) => NeverBetter(acur, Compare(acur))
InvAggFlags  == (acur # <<>>) => \A i \in 1..Len(Compare(acur)) : Compare(acur)[i] \in Flags
\* the full 5 x 5 precedence table
InvAggTable  == \A a, b \in Flags : AggPoint({a, b}) = IF Prec(a) >= Prec(b) THEN a ELSE b
=============================================================================
