---------------------------- MODULE AggregateOps ----------------------------
(* The variable-free definitions of the aggregation model.                 *)
(***************************************************************************)
(* C04: the roll-up (qartod_compare / aggregate / PandasStore              *)
(* .compute_aggregate) of k >= 1 equal-length flag vectors.                *)
(*                                                                         *)
(* An entry of a vector is a flag, a value that is not a flag (0, 7, ...)  *)
(* or MASKED (-1: not evaluated; in the implementation the slot is backed  *)
(* by arbitrary memory).  The aggregate holds at every position the entry  *)
(* of highest precedence MISSING < UNKNOWN < GOOD < SUSPECT < FAIL among   *)
(* the flags present, MISSING where nothing remains.                       *)
(*                                                                         *)
(* The session machine starts from a list of vectors and permutes,         *)
(* duplicates or groups (aggregates sub-lists first) them: the aggregate   *)
(* must not change (commutativity, idempotence, associativity).            *)
(***************************************************************************)
EXTENDS QcBase, TLC, SequencesExt

MASKED == -1

Prec(f) == CASE f = MISSING -> 1 [] f = UNKNOWN -> 2 [] f = GOOD -> 3 [] f = SUSPECT -> 4 [] f = FAIL -> 5

AggPoint(S) ==       \* S: the set of entries at one position
    LET fl == S \cap Flags IN
    IF fl = {} THEN MISSING ELSE CHOOSE f \in fl : \A g \in fl : Prec(g) <= Prec(f)

Compare(vs) ==       \* vs: non-empty sequence of equal-length vectors
    [i \in 1..Len(vs[1]) |-> AggPoint({ vs[j][i] : j \in 1..Len(vs) })]

WellFormed(vs) == Len(vs) >= 1 /\ \A j \in 1..Len(vs) : Len(vs[j]) = Len(vs[1])

\* "never better than the worst evaluated test": no input flag outranks the aggregate
NeverBetter(vs, out) ==
    \A i \in 1..Len(out) : \A j \in 1..Len(vs) :
        vs[j][i] \in Flags => Prec(vs[j][i]) <= Prec(out[i])

=============================================================================
