------------------------------- MODULE ApiMeta -------------------------------
(* Growth beyond the listed properties: small facts about the public API.   *)
(*  meta     every public QC test function carries the flag metadata that   *)
(*           CFNetCDFStore writes to its variable (standard_name, long_name)*)
(*  accessor a stream's time() / data(stream_id) accessors return the source*)
(*           arrays unchanged (they are meant for plotting the results)     *)
EXTENDS Integers, Sequences, Json, IOUtils, TLC, TLCExt
TraceLog == ndJsonDeserialize(IOEnv.TRACE_FILE)
VARIABLE l
TraceInit == l = 1
Clause(e, name, ok) == IF ok THEN TRUE ELSE PrintT(<<"REJECT", e.id, name>>)
Step == /\ l <= Len(TraceLog)
        /\ LET e == TraceLog[l] IN
           /\ CASE e.ev = "meta"     -> Clause(e, "meta_names", e.has_standard_name /\ e.has_long_name)
                [] e.ev = "accessor" -> /\ Clause(e, "accessor_total", e.exc = "")
                                        /\ Clause(e, "accessor_value", e.exc = "" => e.got = e.want)
           /\ IF l = Len(TraceLog) THEN PrintT(<<"DONE", l>>) ELSE TRUE
        /\ l' = l + 1
=============================================================================
