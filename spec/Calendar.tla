------------------------------ MODULE Calendar ------------------------------
(***************************************************************************)
(* Proleptic Gregorian calendar arithmetic on integer day numbers (days    *)
(* since 1970-01-01) and integer seconds since the Unix epoch.  Needed by  *)
(* the climatology rule, whose members may name a calendar period.  The    *)
(* field names and conventions are those of pandas.Timestamp: dayofweek    *)
(* has Monday = 0, week / weekofyear is the ISO-8601 week (the week that   *)
(* holds the year's first Thursday is week 1).                             *)
(*                                                                         *)
(* The module is validated on its own against Python's datetime for every  *)
(* day of 1969..2037 by `vcheck selftest` before it is trusted.            *)
(***************************************************************************)
EXTENDS Integers, QcBase

DayOf(sec)   == FloorDiv(sec, 86400)
SecOfDay(sec) == Mod(sec, 86400)

\* days -> <<year, month, day>>   (Hinnant's civil_from_days)
Civil(days) ==
    LET z   == days + 719468
        era == FloorDiv(z, 146097)
        doe == z - era * 146097
        yoe == (doe - doe \div 1460 + doe \div 36524 - doe \div 146096) \div 365
        y   == yoe + era * 400
        doy == doe - (365 * yoe + yoe \div 4 - yoe \div 100)
        mp  == (5 * doy + 2) \div 153
        d   == doy - (153 * mp + 2) \div 5 + 1
        m   == IF mp < 10 THEN mp + 3 ELSE mp - 9
    IN  << IF m <= 2 THEN y + 1 ELSE y, m, d >>

\* <<year, month, day>> -> days   (Hinnant's days_from_civil)
DaysFromCivil(y0, m, d) ==
    LET y   == IF m <= 2 THEN y0 - 1 ELSE y0
        era == FloorDiv(y, 400)
        yoe == y - era * 400
        doy == (153 * (IF m > 2 THEN m - 3 ELSE m + 9) + 2) \div 5 + d - 1
        doe == yoe * 365 + yoe \div 4 - yoe \div 100 + doy
    IN  era * 146097 + doe - 719468

Year(days)      == Civil(days)[1]
Month(days)     == Civil(days)[2]
DayOfMonth(days) == Civil(days)[3]
DayOfYear(days) == days - DaysFromCivil(Year(days), 1, 1) + 1
DayOfWeek(days) == Mod(days + 3, 7)                  \* 1970-01-01 was a Thursday (3)
Quarter(days)   == (Month(days) - 1) \div 3 + 1
IsoWeek(days)   == LET thu == days - DayOfWeek(days) + 3      \* the Thursday of this ISO week
                   IN  (DayOfYear(thu) - 1) \div 7 + 1
IsLeap(y)       == (y % 4 = 0 /\ y % 100 # 0) \/ y % 400 = 0

Periods == {"year", "month", "day", "dayofyear", "dayofweek", "quarter",
            "week", "weekofyear", "hour", "minute", "second"}

\* the value of a named pandas.Timestamp period attribute for an epoch second
PeriodValue(period, sec) ==
    LET d == DayOf(sec) IN
    CASE period = "year"       -> Year(d)
      [] period = "month"      -> Month(d)
      [] period = "day"        -> DayOfMonth(d)
      [] period = "dayofyear"  -> DayOfYear(d)
      [] period = "dayofweek"  -> DayOfWeek(d)
      [] period = "quarter"    -> Quarter(d)
      [] period = "week"       -> IsoWeek(d)
      [] period = "weekofyear" -> IsoWeek(d)
      [] period = "hour"       -> SecOfDay(sec) \div 3600
      [] period = "minute"     -> (SecOfDay(sec) % 3600) \div 60
      [] period = "second"     -> SecOfDay(sec) % 60
=============================================================================
