---------------------------- MODULE CalendarDump ----------------------------
(* Self-test helper: evaluates the Calendar module on every day of a range  *)
(* and writes the fields as ndjson, which `vcheck selftest` compares with   *)
(* Python's datetime / isocalendar.  Not part of any property check.        *)
EXTENDS Calendar, Json, IOUtils, TLC, Sequences
First == IOEnv.CAL_FIRST
Days  == [i \in 1..25500 |-> i - 401]     \* 1968-11-27 .. 2038-09-19
Row(d) == [d |-> d, y |-> Year(d), m |-> Month(d), dd |-> DayOfMonth(d), doy |-> DayOfYear(d),
           dow |-> DayOfWeek(d), q |-> Quarter(d), w |-> IsoWeek(d)]
ASSUME ndJsonSerialize(IOEnv.CAL_OUT, [i \in 1..Len(Days) |-> Row(Days[i])])
VARIABLE x
Init == x = 0
Next == UNCHANGED x
=============================================================================
