----------------------------- MODULE ConfigLoad -----------------------------
(***************************************************************************)
(* C07: what a configuration MEANS, independent of how it is spelled.      *)
(*                                                                         *)
(* An abstract configuration is a sequence of contexts                     *)
(*   [win |-> <<start, end>> (NA = absent), region |-> "none"|"geom"|"feat",*)
(*    streams |-> << [id, entries |-> << [module, test, params] ... >>] >>] *)
(* (nested exactly like the documents: stream id -> module -> test ->      *)
(* parameters).  params is an opaque identifier of a parameter set (the    *)
(* harness owns the pool: scalars, lists, climatology's nested list of     *)
(* dicts, empty, null); "region" says in which GeoJSON form the same       *)
(* polygon is written.                                                     *)
(*                                                                         *)
(* A configuration can be written in four LAYOUTS and delivered by         *)
(* thirteen CARRIERS; Config(source).calls must be the same set of calls   *)
(* in every spelling that can express it: one call per configured          *)
(* (stream, module, test) with exactly its parameters, window and region;  *)
(* unknown modules and test names contribute nothing.                      *)
(***************************************************************************)
EXTENDS ConfigLoadOps

-----------------------------------------------------------------------------
VARIABLES cfgv,     \* the abstract configuration being loaded
          last      \* the latest load: <<layout, carrier, calls>>  (<<>> before the first)
cvars == <<cfgv, last>>

CStart(cfg) == cfgv = cfg /\ last = <<>>

Load(layout, carrier) ==
    /\ Expressible(cfgv, layout, carrier)
    /\ last' = <<layout, carrier, Calls(cfgv, layout)>>
    /\ UNCHANGED cfgv

\* C07: every spelling yields the calls of the canonical spelling (a list of contexts given as a
\* dict), up to the default stream id of the module layout
Rename(calls) == { [c EXCEPT !.stream = "*"] : c \in calls }
InvSameCalls ==
    last # <<>> =>
        IF last[1] = "bare_modules" THEN Rename(last[3]) = Rename(Calls(cfgv, "contexts"))
        ELSE last[3] = Calls(cfgv, "contexts")
\* unknown modules and tests do not affect the remaining calls
InvUnknownIgnored ==
    last # <<>> => last[3] = Calls(StripUnknown(cfgv), last[1]) /\ \A c \in last[3] : Known(c)
InvCount ==
    last # <<>> => Cardinality(last[3]) <= NCalls(cfgv)
=============================================================================
