---------------------------- MODULE ConfigLoadOps ----------------------------
(* The variable-free definitions of the configuration model (ConfigLoad.tla *)
(* and ConfigOps.tla hold the state machines).                             *)
(***************************************************************************)
(* C07: what a configuration MEANS, independent of how it is spelled.      *)
(*                                                                         *)
(* An abstract configuration is a sequence of contexts                     *)
(*   [win |-> <<start, end>> (NA = absent), region |-> "none"|"geom"|"feat",*)
(*    streams |-> << [id, entries |-> << [module, test, params] ... >>] >>] *)
(* (nested exactly like the documents: stream id -> module -> test ->      *)
(* parameters).  params is an opaque identifier of a parameter set (the    *)
(* harness owns the pool: scalars, lists, climatology's nested list of     *)
(* dicts, empty, null); "region" says in which GeoJSON form the same       *)
(* polygon is written.                                                     *)
(*                                                                         *)
(* A configuration can be written in four LAYOUTS and delivered by         *)
(* thirteen CARRIERS; Config(source).calls must be the same set of calls   *)
(* in every spelling that can express it: one call per configured          *)
(* (stream, module, test) with exactly its parameters, window and region;  *)
(* unknown modules and test names contribute nothing.                      *)
(***************************************************************************)
EXTENDS Integers, Sequences, FiniteSets, TLC

NA == -999999999
DefaultStream == "_stream"

KnownTests ==
    [ qartod |-> {"gross_range_test", "spike_test", "location_test", "climatology_test", "rate_of_change_test",
                  "flat_line_test", "attenuated_signal_test", "density_inversion_test", "aggregate"},
      argo   |-> {"pressure_increasing_test", "speed_test"},
      axds   |-> {"valid_range_test"} ]
Known(e) == e.module \in DOMAIN KnownTests /\ e.test \in KnownTests[e.module]

\* already-parsed objects (Config's docstring: "list of Call objects"; extract_calls: objects with a 'calls'
\* attribute): every call bare, one ContextConfig per context, bare calls and ContextConfigs mixed, a Config
ObjectCarriers == {"call_list", "ctx_objs", "mixed_list", "config_obj"}
Layouts  == {"contexts", "streams", "bare_streams", "bare_modules"}
Carriers == {"dict", "odict", "yaml_str", "json_str", "yaml_io", "json_io", "yaml_path_str", "yaml_path",
             "json_path_str", "json_path", "xr_global", "xr_vars", "nc_path", "xr_global_dict"} \cup ObjectCarriers

HasWindow(c) == c.win # <<NA, NA>>
HasRegion(c) == c.region # "none"
NStreams(c)  == Len(c.streams)

HasKnown(cfg) == \E k \in 1..Len(cfg) : \E s \in 1..NStreams(cfg[k]) :
                     \E j \in 1..Len(cfg[k].streams[s].entries) : Known(cfg[k].streams[s].entries[j])

\* which layouts / carriers can express a configuration at all
Expressible(cfg, layout, carrier) ==
    /\ Len(cfg) >= 1
    /\ CASE layout = "contexts"     -> TRUE
         [] layout = "streams"      -> Len(cfg) = 1
         [] layout = "bare_streams" -> Len(cfg) = 1 /\ ~HasWindow(cfg[1]) /\ ~HasRegion(cfg[1])
         [] layout = "bare_modules" -> Len(cfg) = 1 /\ ~HasWindow(cfg[1]) /\ ~HasRegion(cfg[1]) /\ NStreams(cfg[1]) = 1
    \* per-variable attributes can only spell a bare stream mapping
    /\ carrier = "xr_vars" => layout = "bare_streams"
    \* a bare stream-id mapping whose stream id is the name of a QC module can only be told from a module mapping by
    \* its depth: some test must carry parameters (a shallower one is a module mapping by definition)
    /\ (layout = "bare_streams" /\ carrier # "xr_vars" /\ \E s \in 1..NStreams(cfg[1]) : cfg[1].streams[s].id \in DOMAIN KnownTests)
          => \E s \in 1..NStreams(cfg[1]) : \E j \in 1..Len(cfg[1].streams[s].entries) :
                 cfg[1].streams[s].entries[j].params \notin {"empty", "null"}
    \* objects are built from the list of contexts and must hold at least one call to be recognised as such
    /\ carrier \in ObjectCarriers => layout = "contexts" /\ HasKnown(cfg)
    /\ carrier = "mixed_list" => Len(cfg) >= 2

\* "geom" (a Feature) and "feat" (a FeatureCollection with that one feature) denote the same polygon;
\* "feat2" is a FeatureCollection with two features (both polygons belong to the region)
RegionKey(r) == CASE r = "none" -> "none" [] r = "feat2" -> "polyAB" [] OTHER -> "polyA"

\* the calls a configuration denotes (layout only decides the stream id of the module layout)
Calls(cfg, layout) ==
    UNION { UNION { { [stream |-> IF layout = "bare_modules" THEN DefaultStream ELSE cfg[k].streams[s].id,
                       module |-> e.module, test |-> e.test, params |-> e.params,
                       win |-> cfg[k].win, region |-> RegionKey(cfg[k].region)] :
                        e \in { cfg[k].streams[s].entries[j] : j \in { j \in 1..Len(cfg[k].streams[s].entries) :
                                                                     Known(cfg[k].streams[s].entries[j]) } } }
                    : s \in 1..NStreams(cfg[k]) }
            : k \in 1..Len(cfg) }

NCalls(cfg) ==      \* how many Call objects: one per known entry (identical calls are not merged)
    LET Cnt(k, s) == Cardinality({ j \in 1..Len(cfg[k].streams[s].entries) : Known(cfg[k].streams[s].entries[j]) })
        RECURSIVE SumS(_, _)
        SumS(k, s) == IF s = 0 THEN 0 ELSE Cnt(k, s) + SumS(k, s - 1)
        RECURSIVE SumK(_)
        SumK(k) == IF k = 0 THEN 0 ELSE SumS(k, NStreams(cfg[k])) + SumK(k - 1)
    IN  SumK(Len(cfg))

\* the configuration with every unknown module / test name removed
StripUnknown(cfg) ==
    [k \in 1..Len(cfg) |->
        [cfg[k] EXCEPT !.streams = [s \in 1..NStreams(cfg[k]) |->
            [cfg[k].streams[s] EXCEPT !.entries = SelectSeq(cfg[k].streams[s].entries, Known)]]]]


\* the calls in document order: contexts, then streams, then entries (the order of Config.calls)
RECURSIVE FlatSeq(_)
FlatSeq(ss) == IF ss = <<>> THEN <<>> ELSE Head(ss) \o FlatSeq(Tail(ss))
CallSeq(cfg, layout) ==
    FlatSeq([k \in 1..Len(cfg) |->
        FlatSeq([s \in 1..NStreams(cfg[k]) |->
            LET es == SelectSeq(cfg[k].streams[s].entries, Known) IN
            [j \in 1..Len(es) |->
                [stream |-> IF layout = "bare_modules" THEN DefaultStream ELSE cfg[k].streams[s].id,
                 module |-> es[j].module, test |-> es[j].test,
                 params |-> IF es[j].params = "null" THEN "empty" ELSE es[j].params,
                 win |-> cfg[k].win, region |-> RegionKey(cfg[k].region)]]])])
=============================================================================
