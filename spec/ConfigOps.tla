------------------------------ MODULE ConfigOps ------------------------------
(***************************************************************************)
(* Growth beyond the listed properties: the Config object as a mutable     *)
(* container of calls.  Config(source) creates the call list; add(source)  *)
(* appends the calls extracted from a Call, a list of Calls, another       *)
(* Config or any object with a `calls` attribute; ContextConfig.add only   *)
(* accepts calls of its own context.  The query API is a set of views of   *)
(* that one list:                                                          *)
(*   stream_ids            distinct stream ids, first appearance first     *)
(*   calls_by_stream_id(s) the sub-list for one stream                     *)
(*   has(s, "module.test") the first matching call, or False               *)
(*   contexts              the calls grouped by (window, region), groups   *)
(*                         and members in order of first appearance        *)
(*   aggregate_calls       the calls whose function is an aggregate        *)
(***************************************************************************)
EXTENDS ConfigLoadOps

VARIABLE cs          \* Config._calls (sequence of call records)

OInit == cs = <<>>
ONew(cfg)  == cs' = CallSeq(cfg, "contexts")
OAdd(added) == cs' = cs \o added
\* ContextConfig(ctx).add(source): only calls whose context equals its own
OAddSameContext(added, win, region) ==
    cs' = cs \o SelectSeq(added, LAMBDA c : c.win = win /\ c.region = region)

RECURSIVE DistinctInOrder(_, _)
DistinctInOrder(s, seen) ==
    IF s = <<>> THEN <<>>
    ELSE IF Head(s) \in seen THEN DistinctInOrder(Tail(s), seen)
    ELSE <<Head(s)>> \o DistinctInOrder(Tail(s), seen \cup {Head(s)})

StreamIds(calls)        == DistinctInOrder([i \in 1..Len(calls) |-> calls[i].stream], {})
ByStream(calls, sid)    == SelectSeq(calls, LAMBDA c : c.stream = sid)
HasIdx(calls, sid, mod, test) ==        \* index of the first matching call, 0 when there is none
    LET M == { i \in 1..Len(calls) : calls[i].stream = sid /\ calls[i].module = mod /\ calls[i].test = test }
    IN  IF M = {} THEN 0 ELSE CHOOSE i \in M : \A j \in M : i <= j
CtxKey(c)               == <<c.win, c.region>>
ContextKeys(calls)      == DistinctInOrder([i \in 1..Len(calls) |-> CtxKey(calls[i])], {})
ContextGroups(calls)    == [g \in 1..Len(ContextKeys(calls)) |->
                              SelectSeq(calls, LAMBDA c : CtxKey(c) = ContextKeys(calls)[g])]
AggregateCalls(calls)   == SelectSeq(calls, LAMBDA c : c.test = "aggregate")

\* the views never lose or invent a call
InvViews ==
    /\ Len(FlatSeq(ContextGroups(cs))) = Len(cs)
    /\ \A i \in 1..Len(cs) : \E g \in 1..Len(ContextGroups(cs)) : \E j \in 1..Len(ContextGroups(cs)[g]) :
           ContextGroups(cs)[g][j] = cs[i]
    /\ Len(FlatSeq([k \in 1..Len(StreamIds(cs)) |-> ByStream(cs, StreamIds(cs)[k])])) = Len(cs)
    /\ \A i \in 1..Len(cs) : HasIdx(cs, cs[i].stream, cs[i].module, cs[i].test) \in 1..i
=============================================================================
