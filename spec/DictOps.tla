------------------------------ MODULE DictOps ------------------------------
(* Growth beyond the listed properties: utils.dict_update (the deep merge   *)
(* that folds per-variable ioos_qc_config attributes into one configuration *)
(* and merges legacy configurations) and utils.dict_depth (the layout       *)
(* heuristic of Config).                                                    *)
(*                                                                          *)
(* A tree is a leaf [k |-> "leaf", v |-> n] or a node                       *)
(* [k |-> "node", m |-> <<  <<key, tree>>, ... >>] with keys in KeyOrder    *)
(* order (the harness sorts the keys of the dictionaries it observes).      *)
(*                                                                          *)
(* Merge is what the code does, including one behaviour nobody would write  *)
(* down on purpose and that is therefore named: an EMPTY mapping in the     *)
(* update changes nothing, even where the target holds a leaf               *)
(* (EmptyUpdateKeeps).                                                      *)
EXTENDS Integers, Sequences, FiniteSets, TLC

KeyOrder == <<"a", "b", "c">>
Leaf(n)  == [k |-> "leaf", v |-> n]
Node(s)  == [k |-> "node", m |-> s]
Empty    == Node(<<>>)
IsNode(t) == t.k = "node"

KeysOf(t) == IF IsNode(t) THEN { t.m[i][1] : i \in 1..Len(t.m) } ELSE {}
At(t, key) == LET i == CHOOSE i \in 1..Len(t.m) : t.m[i][1] = key IN t.m[i][2]

\* the pairs <<key, f(key)>> for the keys of S, in KeyOrder order
RECURSIVE Build(_, _, _)
Build(j, S, f) ==
    IF j > Len(KeyOrder) THEN <<>>
    ELSE (IF KeyOrder[j] \in S THEN << <<KeyOrder[j], f[KeyOrder[j]]>> >> ELSE <<>>) \o Build(j + 1, S, f)

RECURSIVE Merge(_, _)
Merge(d, u) ==
    IF ~IsNode(u) THEN u                         \* a leaf of the update replaces whatever is there
    ELSE IF u.m = <<>> THEN d                    \* EmptyUpdateKeeps
    ELSE LET base == IF IsNode(d) THEN d ELSE Empty      \* a leaf gives way to a non-empty mapping
             S    == KeysOf(base) \cup KeysOf(u)
             kid  == [key \in S |-> IF key \in KeysOf(u)
                                    THEN Merge(IF key \in KeysOf(base) THEN At(base, key) ELSE Empty, At(u, key))
                                    ELSE At(base, key)]
         IN  Node(Build(1, S, kid))

RECURSIVE Depth(_)
Depth(t) == IF ~IsNode(t) THEN 0
            ELSE 1 + (IF t.m = <<>> THEN 0
                      ELSE LET ds == { Depth(t.m[i][2]) : i \in 1..Len(t.m) } IN CHOOSE x \in ds : \A y \in ds : y <= x)

\* every leaf with the path that leads to it
RECURSIVE LeafPaths(_)
LeafPaths(t) == IF ~IsNode(t) THEN { << <<>>, t.v >> }
                ELSE UNION { { << <<t.m[i][1]>> \o pv[1], pv[2] >> : pv \in LeafPaths(t.m[i][2]) } : i \in 1..Len(t.m) }

\* laws of the merge (checked by MC_DictOps over all small trees)
Idempotent(d, u)   == Merge(Merge(d, u), u) = Merge(d, u)
UpdateWins(d, u)   == IsNode(u) => LeafPaths(u) \subseteq LeafPaths(Merge(d, u))
NeutralRight(d)    == Merge(d, Empty) = d
NeutralLeft(u)     == IsNode(u) => Merge(Empty, u) = u
KeysUnion(d, u)    == (IsNode(d) /\ IsNode(u)) => KeysOf(Merge(d, u)) = KeysOf(d) \cup KeysOf(u)
DepthBound(d, u)   == Depth(Merge(d, u)) <= (IF Depth(d) >= Depth(u) THEN Depth(d) ELSE Depth(u))
\* NOT a law (TLC: a = {a: 1}, b = 1, c = {b: 1}): a leaf in the middle update wipes what a holds, so the grouping
\* matters; it is one as long as no leaf meets a mapping at the same path
Associative(a, b, c) == Merge(Merge(a, b), c) = Merge(a, Merge(b, c))
RECURSIVE Clash(_, _)
Clash(a, b) == \/ IsNode(a) # IsNode(b)
               \/ (IsNode(a) /\ \E key \in KeysOf(a) \cap KeysOf(b) : Clash(At(a, key), At(b, key)))
AssociativeIfNoClash(a, b, c) == (~Clash(a, b) /\ ~Clash(b, c) /\ ~Clash(a, c)) => Associative(a, b, c)
=============================================================================
