------------------------------ MODULE FxParser ------------------------------
(***************************************************************************)
(* C20: the limit-expression evaluator of ioos_qc.config_creator.          *)
(*                                                                         *)
(* Two independent definitions of what an expression means:                *)
(*                                                                         *)
(*  Value(toks, st)   the ORDINARY ARITHMETIC VALUE of a token string:     *)
(*                    standard precedence, left associativity, unary       *)
(*                    minus, parentheses -- a precedence-climbing          *)
(*                    evaluator over exact rationals.  This is what the    *)
(*                    property promises.                                   *)
(*  the stack machine what fx_parser.py does: parse actions append a       *)
(*                    postfix image of the expression to a MODULE-LEVEL    *)
(*                    stack that is never cleared (Postfix), then a copy   *)
(*                    of the whole stack is evaluated by popping from its  *)
(*                    END (EvalStack).                                     *)
(*                                                                         *)
(* The session machine appends successful, failed and invalid-identifier   *)
(* parses to the stack in any order.  Invariant: whatever the stack held,  *)
(* the value popped for the last expression equals Value of that           *)
(* expression.                                                             *)
(*                                                                         *)
(* Tokens: [k |-> "num", v |-> <<n, d>>]   [k |-> "stat", s |-> name]      *)
(*         [k |-> "op", s |-> "+" | "-" | "*" | "/"]   [k |-> "lp"]        *)
(*         [k |-> "rp"]   [k |-> "id", s |-> name] (not a statistic)       *)
(* Stack items: num / stat / id tokens, [k |-> "op", s |-> ...] and        *)
(*         [k |-> "um"] (the "unary -" marker)                             *)
(***************************************************************************)
EXTENDS Integers, Sequences, FiniteSets, TLC

-----------------------------------------------------------------------------
(* exact rationals <<n, d>>, d > 0, normalised; Undef marks "no value"     *)
Undef == <<0, 0>>
IsDef(q) == q[2] # 0
AbsI(a) == IF a < 0 THEN -a ELSE a
RECURSIVE GCD(_, _)
GCD(a, b) == IF b = 0 THEN a ELSE GCD(b, a % b)
Norm(n, d) == IF d = 0 THEN Undef
              ELSE LET g == GCD(AbsI(n), AbsI(d))
                       s == IF d < 0 THEN -1 ELSE 1
                   IN  IF n = 0 THEN <<0, 1>> ELSE <<(s * n) \div g, (s * d) \div g>>
RAdd(a, b) == IF ~IsDef(a) \/ ~IsDef(b) THEN Undef ELSE Norm(a[1] * b[2] + b[1] * a[2], a[2] * b[2])
RSub(a, b) == IF ~IsDef(a) \/ ~IsDef(b) THEN Undef ELSE Norm(a[1] * b[2] - b[1] * a[2], a[2] * b[2])
RMul(a, b) == IF ~IsDef(a) \/ ~IsDef(b) THEN Undef ELSE Norm(a[1] * b[1], a[2] * b[2])
RDiv(a, b) == IF ~IsDef(a) \/ ~IsDef(b) \/ b[1] = 0 THEN Undef ELSE Norm(a[1] * b[2], a[2] * b[1])
RNeg(a)    == IF ~IsDef(a) THEN Undef ELSE <<-a[1], a[2]>>
REq(a, b)  == a[1] * b[2] = b[1] * a[2] /\ (IsDef(a) <=> IsDef(b))
Apply(op, a, b) == CASE op = "+" -> RAdd(a, b) [] op = "-" -> RSub(a, b)
                     [] op = "*" -> RMul(a, b) [] op = "/" -> RDiv(a, b)

Stats == {"min", "max", "mean", "std"}

-----------------------------------------------------------------------------
(* 1. ordinary arithmetic value of a token string                          *)
(*      expr   ::= term  (('+' | '-') term)*                               *)
(*      term   ::= factor (('*' | '/') factor)*                            *)
(*      factor ::= '-' factor | atom                                       *)
(*      atom   ::= number | statistic | '(' expr ')'                       *)
(* each parser returns [ok, v, i]: success, value, index of the next token *)
PFail == [ok |-> FALSE, v |-> Undef, i |-> 0]
POk(v, i) == [ok |-> TRUE, v |-> v, i |-> i]
IsOp(t, i, S) == i <= Len(t) /\ t[i].k = "op" /\ t[i].s \in S

RECURSIVE PExpr(_, _, _), PExprRest(_, _, _, _), PTerm(_, _, _), PTermRest(_, _, _, _), PFactor(_, _, _), PAtom(_, _, _)
PAtom(t, i, st) ==
    IF i > Len(t) THEN PFail
    ELSE CASE t[i].k = "num"  -> POk(t[i].v, i + 1)
           [] t[i].k = "stat" -> POk(st[t[i].s], i + 1)
           [] t[i].k = "lp"   -> LET r == PExpr(t, i + 1, st) IN
                                 IF r.ok /\ r.i <= Len(t) /\ t[r.i].k = "rp" THEN POk(r.v, r.i + 1) ELSE PFail
           [] OTHER -> PFail
PFactor(t, i, st) ==
    IF IsOp(t, i, {"-"})
    THEN LET r == PFactor(t, i + 1, st) IN IF r.ok THEN POk(RNeg(r.v), r.i) ELSE PFail
    ELSE PAtom(t, i, st)
PTermRest(t, i, st, acc) ==
    IF IsOp(t, i, {"*", "/"})
    THEN LET r == PFactor(t, i + 1, st) IN
         IF r.ok THEN PTermRest(t, r.i, st, Apply(t[i].s, acc, r.v)) ELSE PFail
    ELSE POk(acc, i)
PTerm(t, i, st) == LET r == PFactor(t, i, st) IN IF r.ok THEN PTermRest(t, r.i, st, r.v) ELSE PFail
PExprRest(t, i, st, acc) ==
    IF IsOp(t, i, {"+", "-"})
    THEN LET r == PTerm(t, i + 1, st) IN
         IF r.ok THEN PExprRest(t, r.i, st, Apply(t[i].s, acc, r.v)) ELSE PFail
    ELSE POk(acc, i)
PExpr(t, i, st) == LET r == PTerm(t, i, st) IN IF r.ok THEN PExprRest(t, r.i, st, r.v) ELSE PFail

WellFormed(t, st) == LET r == PExpr(t, 1, st) IN r.ok /\ r.i = Len(t) + 1
\* Undef for division by zero; only meaningful when WellFormed
Value(t, st) == PExpr(t, 1, st).v

-----------------------------------------------------------------------------
(* 2. the implementation's stack machine                                   *)
(* Postfix: what the parse actions append for a well-formed token string   *)
(* (identifiers that are not statistics parse fine and fail only when      *)
(* evaluated).  Mirrors the grammar actions: operand pushed when the atom  *)
(* matches, one "um" per leading '-', operator pushed after its second     *)
(* operand.                                                                *)
UM == [k |-> "um"]
QFail == [ok |-> FALSE, s |-> <<>>, i |-> 0]
QOk(s, i) == [ok |-> TRUE, s |-> s, i |-> i]
RECURSIVE QExpr(_, _), QExprRest(_, _, _), QTerm(_, _), QTermRest(_, _, _), QFactor(_, _), QAtom(_, _)
QAtom(t, i) ==
    IF i > Len(t) THEN QFail
    ELSE CASE t[i].k \in {"num", "stat", "id"} -> QOk(<<t[i]>>, i + 1)
           [] t[i].k = "lp" -> LET r == QExpr(t, i + 1) IN
                               IF r.ok /\ r.i <= Len(t) /\ t[r.i].k = "rp" THEN QOk(r.s, r.i + 1) ELSE QFail
           [] OTHER -> QFail
QFactor(t, i) ==
    IF IsOp(t, i, {"-"})
    THEN LET r == QFactor(t, i + 1) IN IF r.ok THEN QOk(Append(r.s, UM), r.i) ELSE QFail
    ELSE QAtom(t, i)
QTermRest(t, i, acc) ==
    IF IsOp(t, i, {"*", "/"})
    THEN LET r == QFactor(t, i + 1) IN IF r.ok THEN QTermRest(t, r.i, acc \o r.s \o <<t[i]>>) ELSE QFail
    ELSE QOk(acc, i)
QTerm(t, i) == LET r == QFactor(t, i) IN IF r.ok THEN QTermRest(t, r.i, r.s) ELSE QFail
QExprRest(t, i, acc) ==
    IF IsOp(t, i, {"+", "-"})
    THEN LET r == QTerm(t, i + 1) IN IF r.ok THEN QExprRest(t, r.i, acc \o r.s \o <<t[i]>>) ELSE QFail
    ELSE QOk(acc, i)
QExpr(t, i) == LET r == QTerm(t, i) IN IF r.ok THEN QExprRest(t, r.i, r.s) ELSE QFail

Parses(t)  == LET r == QExpr(t, 1) IN r.ok /\ r.i = Len(t) + 1
Postfix(t) == QExpr(t, 1).s

\* evaluate_stack: pop from the END; operands come off in reverse order.
\* returns [v, rest, err]: value, what is left of the stack, "invalid identifier" / underflow flag
RECURSIVE EvalStack(_, _)
EvalStack(s, st) ==
    IF s = <<>> THEN [v |-> Undef, rest |-> <<>>, err |-> TRUE]
    ELSE LET top == s[Len(s)]
             below == SubSeq(s, 1, Len(s) - 1)
         IN  CASE top.k = "um" -> LET a == EvalStack(below, st) IN [a EXCEPT !.v = RNeg(a.v)]
               [] top.k = "op" -> LET b == EvalStack(below, st)
                                      a == EvalStack(b.rest, st)
                                  IN  [v |-> Apply(top.s, a.v, b.v), rest |-> a.rest, err |-> a.err \/ b.err]
               [] top.k = "num"  -> [v |-> top.v, rest |-> below, err |-> FALSE]
               [] top.k = "stat" -> [v |-> st[top.s], rest |-> below, err |-> FALSE]
               [] OTHER          -> [v |-> Undef, rest |-> below, err |-> TRUE]     \* invalid identifier

HasIdent(t) == \E i \in 1..Len(t) : t[i].k = "id"

-----------------------------------------------------------------------------
(* 3. the session: a module-level stack that only grows                    *)
VARIABLES stack,    \* fx_parser.exprStack
          lastT,    \* token string of the last eval_fx call
          lastS,    \* the statistics it was given
          lastV,    \* what it returned (Undef when it raised)
          lastOk    \* it returned a value
fvars == <<stack, lastT, lastS, lastV, lastOk>>

NoStats == [min |-> Undef, max |-> Undef, mean |-> Undef, std |-> Undef]
FInit == stack = <<>> /\ lastT = <<>> /\ lastS = NoStats /\ lastV = Undef /\ lastOk = FALSE

\* a fresh interpreter (or the harness emptying the module attribute)
Reset == stack' = <<>> /\ lastT' = <<>> /\ lastS' = NoStats /\ lastV' = Undef /\ lastOk' = FALSE

\* eval_fx on a string that parses: the postfix image is appended, the tail is evaluated
ParseEval(t, st) ==
    /\ Parses(t)
    /\ LET s2 == stack \o Postfix(t)
           r  == EvalStack(s2, st)
       IN  /\ stack' = s2
           /\ lastT' = t /\ lastS' = st
           /\ lastV' = IF r.err THEN Undef ELSE r.v
           /\ lastOk' = (~r.err /\ IsDef(r.v))

\* eval_fx on a string that does not parse: raises, but whatever the parse actions had already
\* appended stays on the stack (the left-over is whatever was observed / any prefix-like garbage)
ParseFail(t, leftover) ==
    /\ ~Parses(t)
    /\ stack' = stack \o leftover
    /\ lastT' = t /\ lastV' = Undef /\ lastOk' = FALSE
    /\ UNCHANGED lastS

\* C20: the value is the ordinary arithmetic value, whatever was evaluated or rejected before
InvValue ==
    (lastT # <<>> /\ Parses(lastT)) =>
        IF HasIdent(lastT) THEN ~lastOk
        ELSE /\ WellFormed(lastT, lastS)
             /\ lastOk <=> IsDef(Value(lastT, lastS))
             /\ lastOk => REq(lastV, Value(lastT, lastS))

\* the two grammars agree on which strings are expressions (identifiers aside)
InvGrammar == (lastT # <<>> /\ ~HasIdent(lastT)) => (Parses(lastT) <=> WellFormed(lastT, lastS))

\* the stack only grows, and a successful parse leaves its own postfix image at the end
InvTail == (lastT # <<>> /\ Parses(lastT)) =>
               /\ Len(stack) >= Len(Postfix(lastT))
               /\ SubSeq(stack, Len(stack) - Len(Postfix(lastT)) + 1, Len(stack)) = Postfix(lastT)

\* The reason behind history independence, stated as a frame property: evaluating the stack pops EXACTLY the postfix
\* image of the last expression and leaves everything below it untouched -- whatever that is.  (With InvTail this gives
\* history independence for histories of any length, beyond the bound of the instance.)
InvFrame == (lastT # <<>> /\ Parses(lastT) /\ ~HasIdent(lastT)) =>
                EvalStack(stack, lastS).rest = SubSeq(stack, 1, Len(stack) - Len(Postfix(lastT)))

\* accept / reject rule of QcVariableConfig: every space-separated token must be a number, one of the
\* four statistics, one of the four operators or a parenthesis
NumberTokens  == {"0", "1", "2.5", "-1", "1e3", "10", "3.", "007"}
AllowedTokens == NumberTokens \cup Stats \cup {"+", "-", "*", "/", "(", ")"}
Accepts(tokens) == \A i \in 1..Len(tokens) : tokens[i] \in AllowedTokens
\* a whole variable configuration: tests, each a sequence of entries in the order they are written --
\* [kind |-> "spec", tokens] for a limit specification, [kind |-> "bbox"] for a per-test bounding box.
\* It is accepted exactly if every specification of every test is, wherever it is written.
AcceptsCfg(tests) == \A i \in 1..Len(tests) : \A j \in 1..Len(tests[i]) :
                         tests[i][j].kind = "spec" => Accepts(tests[i][j].tokens)

-----------------------------------------------------------------------------
(* 4. QcConfigCreator.create_config on a climatology that is constant in   *)
(* time: the statistics are those of the grid cells inside the requested   *)
(* bounding box (edges inclusive, cells without data ignored), the spans   *)
(* are the limit expressions evaluated on them.                            *)
(* grid: [lat |-> seq, lon |-> seq, v |-> seq (per lat) of seq (per lon)], *)
(* NoCell marks a cell without data.                                       *)
NoCell == -999999999
CellsIn(g, bbox) ==
    { c \in (1..Len(g.lat)) \X (1..Len(g.lon)) :
          /\ g.lon[c[2]] >= bbox[1] /\ g.lon[c[2]] <= bbox[3]
          /\ g.lat[c[1]] >= bbox[2] /\ g.lat[c[1]] <= bbox[4]
          /\ g.v[c[1]][c[2]] # NoCell }
\* A requested box that holds no data cell is grown by half a degree on every side (clamped to the globe) until it
\* does -- this is how the creator behaves; C20 itself only speaks of boxes that hold cells, for which nothing grows.
\* Positions in HALF degrees, so that the growth steps stay integral.
CellsInH(g, b) ==
    { c \in (1..Len(g.lat)) \X (1..Len(g.lon)) :
          /\ 2 * g.lon[c[2]] >= b[1] /\ 2 * g.lon[c[2]] <= b[3]
          /\ 2 * g.lat[c[1]] >= b[2] /\ 2 * g.lat[c[1]] <= b[4]
          /\ g.v[c[1]][c[2]] # NoCell }
PadBox(b) == << IF b[1] - 1 < -360 THEN -360 ELSE b[1] - 1, IF b[2] - 1 < -180 THEN -180 ELSE b[2] - 1,
               IF b[3] + 1 > 360 THEN 360 ELSE b[3] + 1, IF b[4] + 1 > 180 THEN 180 ELSE b[4] + 1 >>
RECURSIVE Grow(_, _, _)
Grow(g, b, k) == IF CellsInH(g, b) # {} \/ k = 0 \/ PadBox(b) = b THEN b ELSE Grow(g, PadBox(b), k - 1)
EffCells(g, bbox) == CellsInH(g, Grow(g, << 2 * bbox[1], 2 * bbox[2], 2 * bbox[3], 2 * bbox[4] >>, 80))
\* (for a box that holds a data cell nothing grows: EffCells = CellsIn)
RECURSIVE SumCells(_, _, _)
SumCells(g, C, sq) ==
    IF C = {} THEN 0
    ELSE LET c == CHOOSE c \in C : TRUE
             x == g.v[c[1]][c[2]]
         IN  (IF sq THEN x * x ELSE x) + SumCells(g, C \ {c}, sq)
ISqrt(m) == IF m < 0 THEN -1
            ELSE IF \E r \in 0..m : r * r = m THEN CHOOSE r \in 0..m : r * r = m ELSE -1
GridStats(g, bbox) ==
    LET C  == EffCells(g, bbox)
        n  == Cardinality(C)
        vs == { g.v[c[1]][c[2]] : c \in C }
        sm == SumCells(g, C, FALSE)
        sq == SumCells(g, C, TRUE)
        r  == ISqrt(n * sq - sm * sm)           \* n^2 * population variance
    IN  [min  |-> <<CHOOSE x \in vs : \A y \in vs : x <= y, 1>>,
         max  |-> <<CHOOSE x \in vs : \A y \in vs : x >= y, 1>>,
         mean |-> Norm(sm, n),
         std  |-> IF r < 0 THEN Undef ELSE Norm(r, n)]      \* Undef: irrational, not judged
UsesUndefStat(t, st) == \E i \in 1..Len(t) : t[i].k = "stat" /\ ~IsDef(st[t[i].s])
=============================================================================
