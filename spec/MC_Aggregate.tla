---------------------------- MODULE MC_Aggregate ----------------------------
(* Bounded instance of Aggregate.  Because the aggregate is pointwise,     *)
(* exhausting every multiset of entries at ONE position (vector length 1)  *)
(* is complete for every length; length 2 is included to exercise the      *)
(* per-position independence.                                              *)
EXTENDS Aggregate
CONSTANTS MaxVecs, MaxLen2Vecs
Entries == Flags \cup {0, 7, MASKED}

\* COMPLETE (not bounded) pointwise laws: the aggregate at one position depends only on the SET of entries there,
\* and there are only 2^8 such sets -- so these hold for any number of vectors of any length.
ASSUME \A S \in SUBSET Entries : AggPoint(S) \in Flags
ASSUME \A S, T \in (SUBSET Entries) \ {{}} :
           /\ AggPoint(S \cup T) = AggPoint({AggPoint(S), AggPoint(T)})          \* aggregating aggregates
           /\ \A f \in (S \cup T) \cap Flags : Prec(f) <= Prec(AggPoint(S \cup T))  \* never better than the worst
ASSUME \A S \in SUBSET Entries : AggPoint(S) = AggPoint(S \cap Flags)             \* masked / non-flag entries are ignored

Perms(n) == { p \in [1..n -> 1..n] : \A a, b \in 1..n : p[a] = p[b] => a = b }

MCAInit == AInit
MCANext ==
    \/ /\ avecs = <<>>
       /\ \/ \E k \in 1..MaxVecs : \E vs \in [1..k -> [1..1 -> Entries]] : AStart(vs)
          \/ \E k \in 1..MaxLen2Vecs : \E vs \in [1..k -> [1..2 -> Entries]] : AStart(vs)
    \/ /\ avecs # <<>> /\ arel.kind = "base"
       /\ \/ \E p \in Perms(Len(avecs)) :
                ADerive([kind |-> "perm", groups |-> <<>>], [j \in 1..Len(avecs) |-> avecs[p[j]]])
          \/ \E j \in 1..Len(avecs) :
                ADerive([kind |-> "dup", groups |-> <<>>], Append(avecs, avecs[j]))
          \/ \E cut \in 1..Len(avecs) :       \* aggregate a prefix and the rest separately, then together
                LET gs == IF cut = Len(avecs) THEN << [m \in 1..cut |-> m] >>
                          ELSE << [m \in 1..cut |-> m], [m \in 1..(Len(avecs) - cut) |-> cut + m] >>
                IN  ADerive([kind |-> "group", groups |-> gs], Grouped(avecs, gs))
          \/ Len(avecs) >= 2 /\             \* overlapping groups
                LET gs == << <<1, 2>>, [m \in 1..(Len(avecs) - 1) |-> m + 1] >>
                IN  ADerive([kind |-> "group", groups |-> gs], Grouped(avecs, gs))
=============================================================================
