---------------------------- MODULE MC_ConfigLoad ----------------------------
(* Bounded instance: 1..2 contexts x 1..2 streams x entries drawn from a pool *)
(* of known tests (with every parameter shape) and unknown module / test      *)
(* names; every layout x carrier that can express the configuration.          *)
EXTENDS ConfigLoad
CONSTANTS Big

E(m, t, p) == [module |-> m, test |-> t, params |-> p]
KnownPool == { E("qartod", "gross_range_test", "gross_full"), E("qartod", "spike_test", "spike_scalar"),
               E("qartod", "climatology_test", "clim_nested"), E("qartod", "location_test", "empty"),
               E("argo", "pressure_increasing_test", "null"), E("axds", "valid_range_test", "valid_mixed") }
UnknownPool == { E("not_a_module", "some_test", "empty"), E("qartod", "not_a_test", "gross_full"),
                 E("qartod", "not_a_test", "null") }
Pool == KnownPool \cup UnknownPool

EntryLists == { <<e>> : e \in Pool }
              \cup { pr \in Pool \X Pool : <<pr[1].module, pr[1].test>> # <<pr[2].module, pr[2].test>>
                                           /\ (Big \/ pr[1] \in KnownPool \/ pr[2] \in KnownPool) }
SmallLists == { <<e>> : e \in {E("qartod", "gross_range_test", "gross_full"), E("argo", "pressure_increasing_test", "null"),
                               E("not_a_module", "some_test", "empty")} }

StreamLists == { << [id |-> "a", entries |-> es] >> : es \in EntryLists }
               \cup { << [id |-> "a", entries |-> e1], [id |-> "b.c", entries |-> e2] >> :
                         e1 \in (IF Big THEN EntryLists ELSE SmallLists), e2 \in SmallLists }
Wins    == { <<NA, NA>>, <<0, 86400>>, <<NA, 86400>>, <<0, NA>> }
Regions == { "none", "geom", "feat" } \cup (IF Big THEN {"feat2"} ELSE {})

Contexts == { [win |-> w, region |-> r, streams |-> ss] : w \in Wins, r \in Regions, ss \in StreamLists }
SecondContexts == { [win |-> <<86400, 172800>>, region |-> r, streams |-> << [id |-> "a", entries |-> es] >>] :
                        r \in {"none", "geom"}, es \in SmallLists }

MCCInit == \E c1 \in Contexts :
               \/ CStart(<<c1>>)
               \/ \E c2 \in SecondContexts : CStart(<<c1, c2>>)
MCCStutter == UNCHANGED cvars
MCCNext == \E layout \in Layouts, carrier \in Carriers : Load(layout, carrier)
=============================================================================
