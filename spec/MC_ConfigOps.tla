---------------------------- MODULE MC_ConfigOps ----------------------------
(* Bounded instance: a configuration, then up to two add() steps.          *)
EXTENDS ConfigOps
VARIABLE nadds
E(m, t, p) == [module |-> m, test |-> t, params |-> p]
G == E("qartod", "gross_range_test", "gross_full")
A == E("qartod", "aggregate", "null")
P == E("argo", "pressure_increasing_test", "null")
U == E("not_a_module", "x", "empty")
Lists == { <<G>>, <<A>>, <<P, U>>, <<G, A>> }
Ctx(w, r, s, es) == [win |-> w, region |-> r, streams |-> << [id |-> s, entries |-> es] >>]
Ctxs == { Ctx(w, r, s, es) : w \in { <<NA, NA>>, <<0, 86400>> }, r \in {"none", "geom"}, s \in {"a", "b"}, es \in Lists }
FirstA == { Ctx(<<NA, NA>>, "none", s, es) : s \in {"a", "b"}, es \in Lists }
FirstB == { Ctx(<<0, 86400>>, r, "b", es) : r \in {"none", "geom"}, es \in Lists }
Few    == { Ctx(<<0, 86400>>, "none", "a", <<G, A>>), Ctx(<<NA, NA>>, "none", "b", <<P, U>>),
            Ctx(<<0, 86400>>, "geom", "b", <<A>>) }
MCOInit == OInit /\ nadds = 0
Adds(cfgs) ==
    \E c \in cfgs :
        LET calls == CallSeq(<<c>>, "contexts") IN
        \/ OAdd(calls)                                            \* a Config / a list of Calls / an object with .calls
        \/ Len(calls) >= 1 /\ OAdd(<<calls[1]>>)                  \* a single Call
        \/ OAddSameContext(calls, <<0, 86400>>, "none")           \* ContextConfig.add
MCONext ==
    \/ cs = <<>> /\ nadds = 0 /\ nadds' = 1 /\ \E c1 \in FirstA, c2 \in FirstB : ONew(<<c1, c2>>)
    \/ nadds = 1 /\ nadds' = 2 /\ Adds(Ctxs)
    \/ nadds = 2 /\ nadds' = 3 /\ Adds(Few)
=============================================================================
