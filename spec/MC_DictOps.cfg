INIT MCDInit
NEXT MCDNext
INVARIANT InvIdempotent
INVARIANT InvUpdateWins
INVARIANT InvNeutral
INVARIANT InvKeysUnion
INVARIANT InvDepthBound
INVARIANT InvAssociative
CHECK_DEADLOCK FALSE
