----------------------------- MODULE MC_DictOps -----------------------------
(* All trees of depth <= 2 over two keys and two leaf values (146 trees):   *)
(* every pair for the binary laws, every triple whose third tree has depth  *)
(* <= 1 for associativity.                                                  *)
EXTENDS DictOps
Keys2 == {"a", "b"}
L0 == { Leaf(1), Leaf(2) }
NodesOver(T) == { Node(Build(1, S, f)) : S \in SUBSET Keys2, f \in [Keys2 -> T] }
L1 == L0 \cup NodesOver(L0)
L2 == L1 \cup NodesOver(L1)

VARIABLES d, u, c
dvars == <<d, u, c>>
MCDInit == d \in L2 /\ u \in L2 /\ c \in L1
MCDNext == UNCHANGED dvars

InvIdempotent  == Idempotent(d, u)
InvUpdateWins  == UpdateWins(d, u)
InvNeutral     == NeutralRight(d) /\ NeutralLeft(u)
InvKeysUnion   == KeysUnion(d, u)
InvDepthBound  == DepthBound(d, u)
InvAssociative == AssociativeIfNoClash(d, u, c)
=============================================================================
