----------------------------- MODULE MC_FxParser -----------------------------
(* Bounded instance: every expression of the grammar up to depth Depth over *)
(* the atom pool, evaluated after every history of up to one earlier step  *)
(* (a valid expression, a failed parse's left-over, an invalid identifier). *)
EXTENDS FxParser
CONSTANTS Depth, Big

Num(n, d) == [k |-> "num", v |-> <<n, d>>]
Stat(s)   == [k |-> "stat", s |-> s]
Op(s)     == [k |-> "op", s |-> s]
LP == [k |-> "lp"]
RP == [k |-> "rp"]
Id(s) == [k |-> "id", s |-> s]

Atoms == IF Big THEN { <<Num(0, 1)>>, <<Num(1, 1)>>, <<Num(2, 1)>>, <<Num(3, 1)>>, <<Num(1, 2)>>,
                       <<Stat("min")>>, <<Stat("max")>>, <<Stat("mean")>>, <<Stat("std")>> }
         ELSE { <<Num(0, 1)>>, <<Num(2, 1)>>, <<Stat("mean")>>, <<Stat("std")>> }
Ops == { Op("+"), Op("-"), Op("*"), Op("/") }

RECURSIVE Exprs(_)
Exprs(d) ==
    IF d = 0 THEN Atoms
    ELSE LET S == Exprs(d - 1) IN
         S \cup { <<Op("-")>> \o e : e \in S }
           \cup { <<LP>> \o e \o <<RP>> : e \in S }
           \cup { a \o <<o>> \o b : a \in S, o \in Ops, b \in S }

StatSets == { [min |-> <<1, 1>>, max |-> <<4, 1>>, mean |-> <<5, 2>>, std |-> <<3, 2>>],
              [min |-> <<-2, 1>>, max |-> <<0, 1>>, mean |-> <<-1, 1>>, std |-> <<1, 1>>] }

\* what earlier calls may have left on the stack
Leftovers == { <<>>, <<Num(1, 1)>>, <<Num(1, 1), Num(2, 1), Op("+")>>, <<Num(7, 1), UM>>,
               <<Stat("max"), Num(3, 1)>>, <<Op("*")>>, <<Id("foo")>>, <<Num(1, 1), Id("foo"), Op("+")>> }
BadStrings == { <<LP, Num(1, 1)>>, <<Num(1, 1), Op("+")>>, <<Num(1, 1), Op("+"), Num(2, 1), RP>>, <<RP>>, <<>>,
                <<Num(1, 1), Num(2, 1)>>, <<Op("*"), Num(2, 1)>> }
IdentStrings == { <<Id("foo")>>, <<Num(1, 1), Op("+"), Id("foo")>>, <<Op("-"), Id("median")>> }

FirstExprs == { <<Num(1, 1)>>, <<Num(1, 1), Op("+"), Num(2, 1)>>, <<Op("-"), Stat("mean")>>,
                <<LP, Num(2, 1), Op("/"), Num(0, 1), RP>> }

VARIABLE steps          \* bounds the history length of the instance
mcvars == <<stack, lastT, lastS, lastV, lastOk, steps>>

MCFInit == FInit /\ steps = 0
MCFNext ==
    \/ /\ steps = 0 /\ steps' = 1                      \* first step: some history
       /\ \/ \E g \in Leftovers : \E b \in {CHOOSE b \in BadStrings : TRUE} : ParseFail(b, g)
          \/ \E b \in BadStrings : ParseFail(b, <<>>)
          \/ \E e \in FirstExprs \cup IdentStrings : \E st \in {CHOOSE st \in StatSets : TRUE} : ParseEval(e, st)
    \/ /\ steps \in {0, 1} /\ steps' = 2               \* then: every expression of the grammar
       /\ \E e \in Exprs(Depth), st \in StatSets : ParseEval(e, st)
=============================================================================
