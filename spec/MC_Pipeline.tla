----------------------------- MODULE MC_Pipeline -----------------------------
(***************************************************************************)
(* Bounded instances of Pipeline: every table x window layout x entry      *)
(* placement (incl. every placement of entries that cannot be loaded /     *)
(* found / run) x every collect order.                                     *)
(***************************************************************************)
EXTENDS Pipeline
CONSTANTS Big           \* FALSE: quick pools, TRUE: thorough pools

Tables ==
    { [t |-> <<0, 10, 20, 30>>, hastime |-> TRUE, data |-> [a |-> <<0, 5, 0, 1>>, b |-> <<1, 1, 5, 0>>],
       z |-> <<0, 1, 2, 3>>, lat |-> <<>>, lon |-> <<>>],
      [t |-> <<0, 10, 20>>, hastime |-> TRUE, data |-> [a |-> <<5, -3, 300>>, b |-> <<0, 0, 1>>],
       z |-> <<>>, lat |-> <<0, 2, 0>>, lon |-> <<0, 0, 2>>] }
    \cup (IF Big THEN { [t |-> <<0, 10, 20, 30, 40>>, hastime |-> TRUE, data |-> [a |-> <<0, 0, 5, 0, 1>>, b |-> <<1, 5, 1, 1, 0>>],
                         z |-> <<3, 2, 1, 1, 0>>, lat |-> <<0, 0, 2, 2, 0>>, lon |-> <<0, 2, 2, 0, 0>>] } ELSE {})

\* a stream that is given no time array at all: windows cannot apply, time-based tests lack an input
NoTimeTable == [t |-> <<0, 1, 2>>, hastime |-> FALSE, data |-> [a |-> <<5, 0, 5>>, b |-> <<0, 0, 1>>],
                z |-> <<0, 1, 2>>, lat |-> <<>>, lon |-> <<>>]

\* window layouts: disjoint (half-open, closed, empty, all-covering first, ending exactly on a row),
\* and one overlapping layout (the order-independence clause does not apply to it)
Layouts ==
    { << <<NA, NA>> >>,
      << <<NA, 20>>, <<20, NA>> >>,
      << <<20, NA>>, <<NA, 20>> >>,
      << <<10, 20>>, <<20, NA>> >>,
      << <<0, 0>>, <<NA, NA>> >>,
      << <<5, 15>>, <<25, NA>> >>,
      << <<0, 40>> >>,
      << <<NA, 10>> >>,
      << <<NA, 20>>, <<10, NA>> >>,
      << <<NA, 20>>, <<NA, 20>> >>,                    \* two contexts with the same window: one group
      << <<NA, 10>>, <<10, 20>>, <<20, NA>> >> }        \* three contexts partitioning the rows
    \cup (IF Big THEN { << <<20, 30>>, <<0, 0>>, <<NA, 20>> >>, << <<NA, NA>>, <<NA, NA>> >> } ELSE {})

GrossA  == [stream |-> "a", fn |-> "gross", p |-> [fail |-> <<0, 4>>, susp |-> <<>>]]
SpikeA  == [stream |-> "a", fn |-> "spike", p |-> [st |-> <<1, 1>>, ft |-> <<3, 1>>, method |-> "average"]]
RocB    == [stream |-> "b", fn |-> "roc",   p |-> [thr |-> <<1, 10>>]]
GrossB  == [stream |-> "b", fn |-> "gross", p |-> [fail |-> <<2, 0>>, susp |-> <<1, 0>>]]
DensA   == [stream |-> "a", fn |-> "dens",  p |-> [st |-> <<0, 1>>, ft |-> <<-1, 1>>]]
ProbeB  == [stream |-> "b", fn |-> "probe", p |-> [none |-> 0]]
\* entries that cannot be executed (C18), one per fault kind
BoomA   == [stream |-> "a", fn |-> "boom",   p |-> [none |-> 0]]
NoModA  == [stream |-> "a", fn |-> "nomod",  p |-> [none |-> 0]]
NoTestB == [stream |-> "b", fn |-> "notest", p |-> [none |-> 0]]
AbsentC == [stream |-> "c", fn |-> "gross",  p |-> [fail |-> <<0, 4>>, susp |-> <<>>]]
BadParA == [stream |-> "a", fn |-> "gross",  p |-> [fail |-> <<1, 2>>, susp |-> <<0, 4>>]]

ValidB  == [stream |-> "b", fn |-> "valid", p |-> [lo |-> 1, hi |-> NA, sincl |-> TRUE, eincl |-> FALSE, kind |-> "num"]]
Probe2B == [stream |-> "b", fn |-> "probe2", p |-> [none |-> 0]]
HealthyPool == IF Big THEN {GrossA, SpikeA, RocB, GrossB, DensA, ProbeB, ValidB, Probe2B} ELSE {GrossA, SpikeA, RocB, DensA, ValidB}
FaultPool   == {BoomA, NoModA, NoTestB, AbsentC, BadParA}
Pool        == HealthyPool \cup FaultPool

\* entry lists of a context: 1..2 entries (3 when Big), distinct (stream, test) keys
KeyOf(e) == <<e.stream, e.fn>>
EntryLists ==
    { <<e>> : e \in Pool }
    \cup { pr \in Pool \X Pool : KeyOf(pr[1]) # KeyOf(pr[2]) }
    \cup (IF Big THEN { tr \in HealthyPool \X FaultPool \X HealthyPool :
                           Cardinality({KeyOf(tr[1]), KeyOf(tr[2]), KeyOf(tr[3])}) = 3 } ELSE {})
    \* (a nested mapping cannot hold the same stream / module / test key twice in one context)
ShortLists == { <<e>> : e \in Pool }
TinyLists  == { <<GrossA>>, <<RocB>>, <<BoomA>>, <<AbsentC>>, <<ValidB>>, <<NoTestB>> }
FewLists   == { <<GrossA>>, <<SpikeA>>, <<BoomA>>, <<BadParA>> }
NoTriples  == { l \in EntryLists : Len(l) <= 2 }

MCPInit ==
    \/ \E first \in EntryLists : PStart(NoTimeTable, << [win |-> <<NA, NA>>, entries |-> first] >>)
    \/ \E pr \in {ProbeB} \X {Probe2B} : PStart(NoTimeTable, << [win |-> <<NA, NA>>, entries |-> <<pr[1], pr[2]>>] >>)
    \/ \E tb \in Tables, lay \in Layouts :
        \E first \in EntryLists :
            \/ Len(lay) = 1 /\ PStart(tb, << [win |-> lay[1], entries |-> first] >>)
            \/ Len(lay) = 2 /\ \E second \in (IF Big THEN TinyLists ELSE ShortLists) :
                  PStart(tb, << [win |-> lay[1], entries |-> first], [win |-> lay[2], entries |-> second] >>)
            \/ Len(lay) = 3 /\ first \in NoTriples /\
                  \E second \in (IF Big THEN TinyLists ELSE ShortLists), third \in (IF Big THEN FewLists ELSE ShortLists) :
                  PStart(tb, << [win |-> lay[1], entries |-> first], [win |-> lay[2], entries |-> second],
                                [win |-> lay[3], entries |-> third] >>)
MCPNext == PNext
MCPStutter == UNCHANGED pvars      \* with INIT MCPInit: enumerates (and dumps) the initial states only
=============================================================================
