---------------------------- MODULE MC_QcSession ----------------------------
(***************************************************************************)
(* Bounded instances of QcSession.  TLC enumerates EVERY base call of the  *)
(* bounded domain of the selected tests and EVERY derived call of the      *)
(* selected relation kinds, checks the invariants of QcSession on each,    *)
(* and (with -dump) writes the reachable states, which the harness then    *)
(* executes on the real functions (one implementation test per state).     *)
(*                                                                         *)
(* Constants (set in the generated .cfg):                                  *)
(*   MCFns   : tests to enumerate          MCRels : relation kinds         *)
(*   MaxLen  : longest series              Big    : TRUE = thorough pools  *)
(***************************************************************************)
EXTENDS QcSession, GeoTable

CONSTANTS MCFns, MCRels, MaxLen, Big

SeqsUpTo(S, n) == UNION { [1..k -> S] : k \in 0..n }
Call(fn, x, t, z, lon, lat, hop, p) ==
    [fn |-> fn, x |-> x, t |-> t, z |-> z, lon |-> lon, lat |-> lat, hop |-> hop, p |-> p]
E == <<>>

ThrSmall == { <<>>, <<0, 1>>, <<1, 2>>, <<1, 1>>, <<2, 1>> }
ThrBig   == ThrSmall \cup { <<3, 2>>, <<3, 1>> }
Thr      == IF Big THEN ThrBig ELSE ThrSmall
ThrGiven == Thr \ { <<>> }

\* regular and irregular strictly increasing axes of a given length
RECURSIVE AxesFrom(_, _, _)
AxesFrom(n, steps, start) ==
    IF n = 0 THEN { <<>> }
    ELSE IF n = 1 THEN { <<start>> }
    ELSE { <<start>> \o a : a \in UNION { AxesFrom(n - 1, steps, start + s) : s \in steps } }
RegularAxis(n, d, start) == [i \in 1..n |-> start + (i - 1) * d]

-----------------------------------------------------------------------------
Vals4 == {0, 1, 2, 5}

(***************************************************************************)
(* The base calls are enumerated by nested quantifiers inside the Start    *)
(* actions (TLC then never materialises the set of all calls).             *)
(***************************************************************************)
SpikeParams == [st : Thr, ft : Thr, method : {"average", "differential"}]
StartSpike ==
    \/ \E x \in SeqsUpTo(Vals4 \cup {NA}, MaxLen), p \in SpikeParams : Start(Call("spike", x, E, E, E, E, E, p))
    \/ Start(Call("spike", <<0, 2, 0>>, E, E, E, E, E, [st |-> <<1, 1>>, ft |-> <<>>, method |-> "bogus"]))
    \/ Start(Call("spike", <<0, 2, 0>>, E, E, E, E, E, [st |-> <<1, 1>>, ft |-> <<>>, method |-> "Average"]))

GrossGrid == IF Big THEN 0..5 ELSE {0, 2, 3, 5}
GrossSpans == { <<a, b>> : a \in GrossGrid, b \in GrossGrid }
GrossParams == [fail : GrossSpans, susp : {<<>>} \cup GrossSpans]
StartGross ==
    \E x \in SeqsUpTo((-1..6) \cup {NA}, 1) \cup { <<6, NA, 0, 3>> }, p \in GrossParams :
        Start(Call("gross", x, E, E, E, E, E, p))

ValidParams == [lo : {NA, 0, 1, 3}, hi : {NA, 0, 1, 3}, sincl : BOOLEAN, eincl : BOOLEAN, kind : {"num", "time"}]
StartValid ==
    \E x \in SeqsUpTo((-1..4) \cup {NA}, 1) \cup { <<4, NA, 0, 3, 1>> }, p \in ValidParams :
        Start(Call("valid", x, E, E, E, E, E, p))

RocThr == { <<0, 1>>, <<1, 60>>, <<1, 30>>, <<1, 1>>, <<3, 1>> }
RocLen == Min2(IF Big THEN 4 ELSE 3, MaxLen)
StartRoc ==
    \E x \in SeqsUpTo({0, 1, 3, NA}, RocLen), k \in 0..RocLen, q \in RocThr :
        \E t \in AxesFrom(k, {1, 60}, 0) :
            \* mismatched lengths (rejected) only for short inputs and one threshold
            /\ Len(x) = k \/ (Len(x) <= 2 /\ k <= 2) \/ q = <<1, 1>>
            /\ Start(Call("roc", x, t, E, E, E, E, [thr |-> q]))

FlatDur(d) == IF Big THEN {0, d \div 2, d, (3 * d) \div 2, 2 * d, 3 * d, 5 * d, 6 * d}
                     ELSE {d \div 2, d, (3 * d) \div 2, 2 * d, 4 * d}
FlatTol == IF Big THEN { <<0, 1>>, <<1, 2>>, <<1, 1>>, <<2, 1>> } ELSE { <<0, 1>>, <<1, 1>>, <<2, 1>> }
StartFlat ==
    \E d \in {1, 60}, x \in SeqsUpTo({0, 1, NA}, Min2(MaxLen, 5)), q \in FlatTol :
        \E s \in FlatDur(d), f \in FlatDur(d) :
            Start(Call("flat", x, RegularAxis(Len(x), d, 7), E, E, E, E, [st |-> s, ft |-> f, tol |-> q]))

AttThr == IF Big THEN { <<0, 1>>, <<1, 2>>, <<1, 1>>, <<2, 1>> } ELSE { <<1, 2>>, <<1, 1>>, <<2, 1>> }
AttWin(d) == { w \in [period : {d, 2 * d, (5 * d) \div 2}, minobs : {NA, 1, 2, 3}, minperiod : {NA, d, 2 * d}] :
                   w.minobs = NA \/ w.minperiod = NA }
AttSeries == SeqsUpTo({0, 1, 3, NA}, Min2(MaxLen, 4)) \ { <<>> }
StartAtt ==
    \* whole-series mode
    \/ \E x \in AttSeries, s \in AttThr, f \in AttThr, k \in {"std", "range"} :
          Start(Call("att", x, RegularAxis(Len(x), 60, 0), E, E, E, E,
                     [st |-> s, ft |-> f, period |-> NA, minobs |-> NA, minperiod |-> NA, kind |-> k]))
    \* trailing-window mode on a regular axis
    \/ \E x \in AttSeries, s \in AttThr, f \in AttThr, k \in {"std", "range"}, w \in AttWin(60) :
          Start(Call("att", x, RegularAxis(Len(x), 60, 0), E, E, E, E,
                     [st |-> s, ft |-> f, period |-> w.period, minobs |-> w.minobs,
                      minperiod |-> IF Len(x) >= 2 THEN w.minperiod ELSE NA, kind |-> k]))
    \* trailing-window mode on irregular axes (a point exactly one period back is outside the window)
    \/ \E x \in [1..3 -> {0, 1, 3, NA}], t \in AxesFrom(3, {30, 60, 90}, 0), pr \in {60, 90}, mo \in {NA, 2},
           k \in {"std", "range"} :
          Start(Call("att", x, t, E, E, E, E,
                     [st |-> <<1, 1>>, ft |-> <<1, 2>>, period |-> pr, minobs |-> mo, minperiod |-> NA, kind |-> k]))
    \/ Start(Call("att", <<0, 1>>, <<0, 60>>, E, E, E, E,
                   [st |-> <<1, 1>>, ft |-> <<1, 2>>, period |-> NA, minobs |-> NA, minperiod |-> NA, kind |-> "bogus"]))

DensThr == IF Big THEN { <<>>, <<-1, 1>>, <<-1, 2>>, <<0, 1>>, <<1, 2>> } ELSE { <<>>, <<-1, 1>>, <<0, 1>> }
DensLen == Min2(MaxLen, IF Big THEN 4 ELSE 3)
StartDens ==
    \/ \E k \in 0..DensLen, s \in DensThr, f \in DensThr :
          \E x \in [1..k -> {0, 1, 2, NA}], z \in [1..k -> {0, 1, 2, NA}] :
              Start(Call("dens", x, E, z, E, E, E, [st |-> s, ft |-> f]))
    \/ Start(Call("dens", <<0, 1>>, E, <<0>>, E, E, E, [st |-> <<>>, ft |-> <<>>]))

StartPress ==
    \E x \in SeqsUpTo({0, 1, 2, NA}, Min2(MaxLen, 5)) : Start(Call("press", x, E, E, E, E, E, [none |-> 0]))

\* positions: the named points, partially and fully missing ones
PosSet == GeoPts \cup { <<NA, 0>>, <<0, NA>>, <<NA, NA>> }
PosSmall == { <<0, 0>>, <<2, 0>>, <<0, 2>>, <<359, 0>>, <<-359, 0>>, <<1, 1>>, <<NA, 0>>, <<NA, NA>> }
HopsOf(ps) == [i \in 1..Len(ps) |->
                 IF i = 1 \/ NA \in {ps[i][1], ps[i][2], ps[i-1][1], ps[i-1][2]} THEN NA
                 ELSE GeoDist(ps[i-1], ps[i])]
LonOf(ps) == [i \in 1..Len(ps) |-> ps[i][1]]
LatOf(ps) == [i \in 1..Len(ps) |-> ps[i][2]]

LocBoxes == { <<>>, <<0, 0, 2, 2>>, <<-10, -10, 10, 10>> }
LocRmax  == { <<>>, <<0, 1>>, <<110900, 1>>, <<111000, 1>>, <<100000000, 1>> }
StartLoc ==
    \/ \E ps \in SeqsUpTo(IF Big THEN PosSmall ELSE PosSet, Min2(MaxLen, IF Big THEN 3 ELSE 2)),
           b \in LocBoxes, q \in LocRmax :
          Start(Call("loc", E, E, E, LonOf(ps), LatOf(ps), HopsOf(ps), [bbox |-> b, rmax |-> q, shapes |-> "same"]))
    \/ \E b \in { <<0, 0, 2>>, <<0, 0, 2, 2, 2>>, <<0>> } :
          Start(Call("loc", E, E, E, <<0, 2>>, <<0, 0>>, <<NA, 111319>>, [bbox |-> b, rmax |-> <<>>, shapes |-> "same"]))
    \/ Start(Call("loc", E, E, E, <<0, 2>>, <<0>>, <<NA, NA>>, [bbox |-> <<>>, rmax |-> <<>>, shapes |-> "same"]))
    \/ \E q \in LocRmax : Start(Call("loc", E, E, E, <<0, 2>>, <<0, 0>>, <<NA, 111319>>,
                                       [bbox |-> <<>>, rmax |-> q, shapes |-> "differ"]))

\* speeds around one degree per hour (30.9 m/s) and per day (1.29 m/s)
SpeedThr == { <<0, 1>>, <<1, 1>>, <<2, 1>>, <<30, 1>>, <<31, 1>> }
StartSpeed ==
    \/ \E k \in 0..Min2(MaxLen, 3), s \in SpeedThr, f \in SpeedThr :
          \E ps \in [1..k -> PosSmall], t \in AxesFrom(k, {3600, 86400}, 0) :
              Start(Call("speed", E, t, E, LonOf(ps), LatOf(ps), HopsOf(ps), [st |-> s, ft |-> f]))
    \/ Start(Call("speed", E, <<0>>, E, <<0, 2>>, <<0, 0>>, <<NA, 111319>>, [st |-> <<1, 1>>, ft |-> <<2, 1>>]))

\* climatology: members over every period kind on the edge dates of C08
\*   2019-12-30 (ISO week 1 of 2020, day 364)   2020-01-01   2020-02-29 (leap day, day 60)
\*   2020-12-31 (day 366, ISO week 53)          2021-01-03 (ISO week 53 of 2020, day 3)
ClimTimes == { 1577664000, 1577836800, 1582977600 + 43200, 1609372800, 1609632000 + 86399 }
ClimTspansAll ==
    { [period |-> "", tspan |-> <<1577836800, 1609372800>>],
      [period |-> "", tspan |-> <<1609459199, 1577664000>>],
      [period |-> "month", tspan |-> <<12, 12>>], [period |-> "month", tspan |-> <<2, 1>>],
      [period |-> "week", tspan |-> <<1, 1>>], [period |-> "weekofyear", tspan |-> <<53, 52>>],
      [period |-> "dayofyear", tspan |-> <<60, 364>>], [period |-> "dayofyear", tspan |-> <<366, 365>>],
      [period |-> "quarter", tspan |-> <<1, 1>>], [period |-> "dayofweek", tspan |-> <<0, 2>>],
      [period |-> "year", tspan |-> <<2020, 2020>>], [period |-> "day", tspan |-> <<29, 31>>] }
ClimTspans == IF Big THEN ClimTspansAll
              ELSE { m \in ClimTspansAll : m.period \in {"", "month", "week", "dayofyear"} }
ClimMembers ==
    { [tspan |-> ts.tspan, period |-> ts.period, vspan |-> v, fspan |-> f, zspan |-> z] :
          ts \in ClimTspans, v \in { <<0, 2>>, <<1, 0>> }, f \in { <<>>, <<3, -1>>, <<1, 1>> }, z \in { <<>>, <<10, 5>> } }
StartClim ==
    \/ \E x \in {-2, -1, 0, 2, 3, 4, NA}, t \in ClimTimes, z \in { <<>>, <<NA>>, <<5>>, <<10>>, <<11>> },
           ms \in { <<>> } \cup { <<m>> : m \in ClimMembers } :
          Start(Call("clim", <<x>>, <<t>>, z, E, E, E, [members |-> ms]))
    \/ \E x \in {-2, 0, 3, NA}, t \in { 1577664000, 1582977600 + 43200, 1609372800 }, z \in { <<NA>>, <<5>>, <<11>> },
           m1 \in { m \in ClimMembers : m.vspan = <<0, 2>> }, m2 \in { m \in ClimMembers : m.vspan = <<1, 0>> } :
          Start(Call("clim", <<x>>, <<t>>, z, E, E, E, [members |-> <<m1, m2>>]))

StartAny ==
    \/ ("gross" \in MCFns /\ StartGross)
    \/ ("valid" \in MCFns /\ StartValid)
    \/ ("spike" \in MCFns /\ StartSpike)
    \/ ("roc" \in MCFns /\ StartRoc)
    \/ ("flat" \in MCFns /\ StartFlat)
    \/ ("att" \in MCFns /\ StartAtt)
    \/ ("dens" \in MCFns /\ StartDens)
    \/ ("press" \in MCFns /\ StartPress)
    \/ ("loc" \in MCFns /\ StartLoc)
    \/ ("speed" \in MCFns /\ StartSpeed)
    \/ ("clim" \in MCFns /\ StartClim)

-----------------------------------------------------------------------------
(* Derived calls                                                           *)
R(kind, i, k) == [kind |-> kind, i |-> i, k |-> k]

ParamsOf(c) ==      \* the parameter pool a tightened call may draw from
    CASE c.fn = "spike" -> { p \in SpikeParams : p.method = c.p.method }
      [] c.fn = "gross" -> GrossParams
      [] c.fn = "valid" -> ValidParams
      [] c.fn = "roc"   -> { [thr |-> q] : q \in RocThr }
      [] c.fn = "flat"  -> LET d == IF Len(c.t) >= 2 THEN c.t[2] - c.t[1] ELSE 1 IN
                           { [st |-> s, ft |-> f, tol |-> q] : s \in FlatDur(d), f \in FlatDur(d), q \in FlatTol }
      [] c.fn = "att"   -> { [c.p EXCEPT !.st = s, !.ft = f] : s \in AttThr, f \in AttThr }
      [] c.fn = "dens"  -> { [st |-> s, ft |-> f] : s \in DensThr, f \in DensThr }
      [] c.fn = "loc"   -> { [bbox |-> b, rmax |-> q, shapes |-> c.p.shapes] : b \in LocBoxes, q \in LocRmax }
      [] c.fn = "speed" -> { [st |-> s, ft |-> f] : s \in SpeedThr, f \in SpeedThr }
      [] c.fn = "clim"  -> { [members |-> ms] : ms \in
                               IF Len(c.p.members) = 1 THEN { <<m>> : m \in ClimMembers }
                               ELSE IF Len(c.p.members) = 0 THEN { <<>> } ELSE {} }
      [] OTHER -> {}

PerturbVals(c) == CASE c.fn \in {"flat"} -> {0, 1, NA}
                    [] c.fn \in {"dens"} -> {0, 1, 2, NA}
                    [] c.fn \in {"clim", "gross", "valid"} -> {-1, 0, 3, NA}
                    [] OTHER -> {0, 1, 5, NA}

Perturbed(c) ==
    IF c.fn \in {"loc", "speed"}
    THEN { <<R("perturb", i, 0),
             LET ps == [j \in 1..Len(c.lon) |-> IF j = i THEN q ELSE <<c.lon[j], c.lat[j]>>] IN
             [c EXCEPT !.lon = LonOf(ps), !.lat = LatOf(ps), !.hop = HopsOf(ps)]>> :
               i \in 1..Len(c.lon), q \in { <<2, 2>>, <<NA, NA>>, <<40, 120>> } }
    ELSE { <<R("perturb", i, 0), [c EXCEPT !.x[i] = v]>> : i \in 1..Len(c.x), v \in PerturbVals(c) }

Derived(c, kind) ==
    IF ~Applies(kind, c) \/ ~Expected(c, FALSE).ok THEN {}
    ELSE CASE kind = "recall"    -> { <<R(kind, 0, 0), c>> }
           [] kind = "tighten"   -> { <<R(kind, 0, 0), [c EXCEPT !.p = p]>> :
                                        p \in { q \in ParamsOf(c) : Stricter([c EXCEPT !.p = q], c) } }
           [] kind = "shiftv"    -> { <<R(kind, 0, k), ShiftV(c, k)>> : k \in {1, -3, 100} }
           [] kind = "negate"    -> { <<R(kind, 0, 0), Negate(c)>> }
           [] kind = "shiftt"    -> { <<R(kind, 0, k), ShiftT(c, k)>> : k \in {1, 37, 86400, -31536000} }
           [] kind = "shiftboth" -> { <<R(kind, 0, k), ShiftBoth(c, k)>> : k \in {1, -7} }
           [] kind = "reverse"   -> { <<R(kind, 0, 0), ReverseX(c)>> }
           [] kind = "mirror"    -> { <<R(kind, 0, 0), Mirror(c)>> }
           [] kind = "perturb"   -> Perturbed(c)

MCInit == Init
MCNext ==
    \/ base.fn = "none" /\ StartAny
    \/ /\ base.fn # "none" /\ rel.kind = "base"
       /\ \E kind \in MCRels : \E rc \in Derived(base, kind) : Derive(rc[1], rc[2])
MCSpec == MCInit /\ [][MCNext]_svars
=============================================================================
