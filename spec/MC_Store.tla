------------------------------ MODULE MC_Store ------------------------------
(* Bounded instance of Store: runs over stream ids with characters that are *)
(* illegal in CF names x all write_data / write_axes combinations x include *)
(* / exclude lists.  The model's own frame (SpecFrame) must satisfy FrameOK *)
(* on every instance (the property is satisfiable, the clauses are not      *)
(* vacuous), and the naming rule must be collision free on the pool apart   *)
(* from the two ids that differ only in an illegal character.               *)
EXTENDS Store

CharsOf == [ a |-> <<"a">>, ab |-> <<"a", ".", "b">>, a_b |-> <<"a", "_", "b">>, x1 |-> <<"1", "x">>,
             uy |-> <<"_", "y">>, qartod |-> <<"q","a","r","t","o","d">>,
             gross |-> <<"g","r","o","s","s">>, spike |-> <<"s","p","i","k","e">>,
             axds |-> <<"a","x","d","s">>, valid |-> <<"v","a","l","i","d">> ]
StreamIds == {"a", "ab", "a_b", "x1", "uy"}

Tb(s1, s2) == [t |-> <<0, 10, 20>>, hastime |-> TRUE, data |-> (s1 :> <<0, 5, 0>>) @@ (s2 :> <<1, 1, 5>>), z |-> <<0, 1, 2>>,
               lat |-> <<>>, lon |-> <<>>]
G(s) == [stream |-> s, fn |-> "gross", p |-> [fail |-> <<0, 4>>, susp |-> <<>>]]
S(s) == [stream |-> s, fn |-> "spike", p |-> [st |-> <<1, 1>>, ft |-> <<3, 1>>, method |-> "average"]]
V(s) == [stream |-> s, fn |-> "valid", p |-> [lo |-> 1, hi |-> NA, sincl |-> TRUE, eincl |-> FALSE, kind |-> "num"]]
Cfg(s1, s2) == << [win |-> <<NA, 20>>, entries |-> <<G(s1), S(s1)>>], [win |-> <<20, NA>>, entries |-> <<G(s1), G(s2), V(s2)>>] >>

Items(s1, s2) == { <<>>, << [kind |-> "stream", v |-> s1] >>, << [kind |-> "test", v |-> "spike"] >>,
                   << [kind |-> "func", v |-> "gross"], [kind |-> "stream", v |-> s2] >> }
DefaultAxes == [t |-> <<"t","i","m","e">>, z |-> <<"z">>, y |-> <<"l","a","t">>, x |-> <<"l","o","n">>]
CustomAxes  == [t |-> <<"t","t">>, z |-> <<"d","e","p","t","h">>, y |-> <<"y">>, x |-> <<"x">>]
Opts(s1, s2) == { [write_data |-> wd, write_axes |-> wa, include |-> [given |-> ig, items |-> ii],
                   exclude |-> [given |-> eg, items |-> ei], axes |-> ax] :
                      wd \in BOOLEAN, wa \in BOOLEAN, ig \in BOOLEAN, eg \in BOOLEAN,
                      ii \in Items(s1, s2), ei \in Items(s1, s2), ax \in {DefaultAxes, CustomAxes} }

VARIABLES s1v, s2v, optv, framev, aggv, rollv
msvars == <<s1v, s2v, optv, framev, aggv, rollv>>
RollOf(s1, s2, aggd) == LET w == RollupWanted(Tb(s1, s2), Cfg(s1, s2), CharsOf, aggd) IN [found |-> w # <<>>, vals |-> w]
MCSInit == \E s1 \in StreamIds, s2 \in StreamIds :
               /\ s1 # s2
               /\ \E o \in Opts(s1, s2) :
                     /\ (o.include.given \/ o.include.items = <<>>) /\ (o.exclude.given \/ o.exclude.items = <<>>)
                     /\ s1v = s1 /\ s2v = s2 /\ optv = o
                     /\ framev = SpecFrame(Tb(s1, s2), Cfg(s1, s2), CharsOf, o)
                     /\ aggv = FALSE /\ rollv = RollOf(s1, s2, FALSE)
MCSStutter == UNCHANGED msvars
\* the life cycle of the store object: compute_aggregate, and saving again (with the same options)
MCAggregate == /\ aggv' = TRUE /\ rollv' = RollOf(s1v, s2v, TRUE)
               /\ UNCHANGED <<s1v, s2v, optv, framev>>
MCSaveAgain == /\ framev' = SpecFrame(Tb(s1v, s2v), Cfg(s1v, s2v), CharsOf, optv)
               /\ rollv' = RollOf(s1v, s2v, aggv)
               /\ UNCHANGED <<s1v, s2v, optv, aggv>>
MCSNext == MCAggregate \/ MCSaveAgain

Collide(s1, s2) == {s1, s2} = {"ab", "a_b"}
InvStoreSat ==
    LET ok == FrameOK(framev, Tb(s1v, s2v), Cfg(s1v, s2v), CharsOf, optv) IN
    /\ ok.rows /\ ok.axes /\ ok.data
    /\ ~Collide(s1v, s2v) => ok.distinct /\ ok.count /\ ok.results
InvLife == /\ RollupOK(rollv, Tb(s1v, s2v), Cfg(s1v, s2v), CharsOf, aggv)
           /\ AggIdempotent(Tb(s1v, s2v), Cfg(s1v, s2v), CharsOf)
           /\ (aggv => rollv.found)
\* saving is a pure observation: it never changes the frame the same options give
SaveIsPure == [][framev' = framev]_msvars
InvNames ==
    \A j \in 1..Len(framev) :
        framev[j].name \notin ({CharsOf[s1v], CharsOf[s2v]} \cup AxisNamesOf(optv)) => IsSafe(framev[j].name)
InvCollision ==
    LET R == ResultsOf(Tb(s1v, s2v), Cfg(s1v, s2v), CharsOf) IN
    NoCollision(R) <=> ~Collide(s1v, s2v)
=============================================================================
