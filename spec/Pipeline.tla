------------------------------ MODULE Pipeline ------------------------------
(***************************************************************************)
(* config -> stream -> results: the stateful part of ioos_qc.               *)
(*                                                                         *)
(* A stream front end (NumpyStream, PandasStream, XarrayStream,            *)
(* NetcdfStream, QcConfig.run) walks a configuration and YIELDS one        *)
(* ContextResult per (context, call); collect_results then folds any       *)
(* sequence of ContextResults into one accumulator per                     *)
(* "stream:module.test" key by scattering each result on the boolean row   *)
(* mask of its context.                                                    *)
(*                                                                         *)
(*   RunCall      one step per yielded ContextResult, in context/call order*)
(*   Collect(k)   consume ANY not yet collected result (TLC explores every *)
(*                arrival order)                                           *)
(*                                                                         *)
(* C05  what a context yields for (stream, test) is the test's rule        *)
(*      applied to the rows with  starting <= t < ending  (absent bound    *)
(*      open), all inputs restricted to the same rows, in order;           *)
(* C06  at completion every covered row carries its covering context's     *)
(*      flag, uncovered rows are masked (list form) / UNKNOWN (dict form), *)
(*      and for disjoint windows the arrival order is irrelevant;          *)
(* C18  an entry that cannot be loaded or run contributes nothing and      *)
(*      leaves every other accumulator exactly as without it.              *)
(*                                                                         *)
(* table  : [t, data (stream id -> series), z, lat, lon]  (<<>> = no such  *)
(*          column)                                                        *)
(* config : sequence of contexts [win |-> <<start, end>> (NA = absent),    *)
(*                                entries |-> << [stream, fn, p] ... >>]   *)
(*          fn is a test of QcTests, or "probe" (a test registered at run  *)
(*          time that records its arguments), "boom" (a registered test    *)
(*          that raises), "nomod" / "notest" (unknown module / test name)  *)
(***************************************************************************)
EXTENDS PipelineOps

-----------------------------------------------------------------------------
VARIABLES table, config,
          ys,       \* ContextResults yielded so far
          order,    \* indices of ys collected so far, in arrival order
          accL,     \* list-form accumulators (MASKED where nothing was scattered)
          accD,     \* dict-form accumulators (UNKNOWN where nothing was scattered)
          pc        \* "run" | "collect" | "done"
pvars == <<table, config, ys, order, accL, accD, pc>>

PStart(tb, cfg) ==
    /\ table = tb /\ config = cfg
    /\ ys = <<>> /\ order = <<>> /\ accL = <<>> /\ accD = <<>> /\ pc = "run"

RunCall ==
    /\ pc = "run"
    /\ Len(ys) < Len(Yields(table, config))
    /\ ys' = Append(ys, Yields(table, config)[Len(ys) + 1])
    /\ UNCHANGED <<table, config, order, accL, accD, pc>>

EndRun ==
    /\ pc = "run"
    /\ Len(ys) = Len(Yields(table, config))
    /\ pc' = "collect"
    /\ UNCHANGED <<table, config, ys, order, accL, accD>>

Collect(k) ==
    /\ pc = "collect"
    /\ k \in 1..Len(ys)
    /\ \A j \in 1..Len(order) : order[j] # k
    /\ order' = Append(order, k)
    /\ accL' = ScatterL(accL, ys[k], NRows(table))
    /\ accD' = ScatterD(accD, ys[k], NRows(table))
    /\ UNCHANGED <<table, config, ys, pc>>

Finish ==
    /\ pc = "collect"
    /\ Len(order) = Len(ys)
    /\ pc' = "done"
    /\ UNCHANGED <<table, config, ys, order, accL, accD>>

\* a completed run stutters (so that TLC's deadlock check means: no run gets stuck before completion)
Terminated == pc = "done" /\ UNCHANGED pvars

PNext == RunCall \/ EndRun \/ (\E k \in 1..Len(ys) : Collect(k)) \/ Finish \/ Terminated

\* every run completes: all results are yielded and collected, whatever the configuration contains
Termination == <>(pc = "done")

-----------------------------------------------------------------------------
(* Invariants                                                              *)
\* C05 (shape): a yield covers exactly its window rows and carries one flag per covered row
InvYieldShape ==
    \A k \in 1..Len(ys) :
        /\ ys[k].subset = Covered(table, ys[k].win)
        /\ ys[k].ok => Len(ys[k].flags) = Cardinality(ys[k].subset)

\* C06: exactly one accumulator per key; covered rows carry the covering context's flag;
\* uncovered rows masked / UNKNOWN; list and dict form agree; arrival order irrelevant
InvC06 ==
    (pc = "done" /\ DisjointYields(ys)) =>
        /\ accL = CoverAcc(ys, NRows(table), MASKED)
        /\ accD = CoverAcc(ys, NRows(table), UNKNOWN)
        /\ DOMAIN accL = DOMAIN accD
        /\ \A key \in DOMAIN accL : \A i \in 1..NRows(table) :
              IF accL[key][i] = MASKED THEN accD[key][i] = UNKNOWN ELSE accD[key][i] = accL[key][i]

\* every prefix of the collection is the fold of what arrived so far (accumulators only grow)
InvC06Prefix ==
    (pc \in {"collect", "done"}) => accL = FoldL(<<>>, ys, order, NRows(table))

\* The reason behind order independence, stated compositionally: from ANY accumulator state reached so far, scattering two
\* results of different keys or of disjoint rows commutes.  (Pairwise commutation plus induction on the number of
\* transpositions gives order independence for any number of results, beyond the bound of the instance.)
InvCommute ==
    \A a, b \in 1..Len(ys) :
        (a < b /\ (Key(ys[a]) # Key(ys[b]) \/ ys[a].subset \cap ys[b].subset = {} \/ ~ys[a].ok \/ ~ys[b].ok)) =>
            LET n == NRows(table) IN
            /\ ScatterL(ScatterL(accL, ys[a], n), ys[b], n) = ScatterL(ScatterL(accL, ys[b], n), ys[a], n)
            /\ ScatterD(ScatterD(accD, ys[a], n), ys[b], n) = ScatterD(ScatterD(accD, ys[b], n), ys[a], n)

\* C18: entries that cannot run drop out without disturbing the rest
InvC18 ==
    (pc = "done" /\ DisjointYields(ys)) =>
        LET hy == Yields(table, HealthyOnly(table, config)) IN
        /\ accL = CoverAcc(hy, NRows(table), MASKED)
        /\ accD = CoverAcc(hy, NRows(table), UNKNOWN)
        /\ \A k \in 1..Len(hy) : hy[k].ok
=============================================================================
