---------------------------- MODULE PipelineOps ----------------------------
(* The variable-free definitions of the pipeline model (see Pipeline.tla    *)
(* for the state machine that uses them).                                  *)
(***************************************************************************)
(* config -> stream -> results: the stateful part of ioos_qc.               *)
(*                                                                         *)
(* A stream front end (NumpyStream, PandasStream, XarrayStream,            *)
(* NetcdfStream, QcConfig.run) walks a configuration and YIELDS one        *)
(* ContextResult per (context, call); collect_results then folds any       *)
(* sequence of ContextResults into one accumulator per                     *)
(* "stream:module.test" key by scattering each result on the boolean row   *)
(* mask of its context.                                                    *)
(*                                                                         *)
(*   RunCall      one step per yielded ContextResult, in context/call order*)
(*   Collect(k)   consume ANY not yet collected result (TLC explores every *)
(*                arrival order)                                           *)
(*                                                                         *)
(* C05  what a context yields for (stream, test) is the test's rule        *)
(*      applied to the rows with  starting <= t < ending  (absent bound    *)
(*      open), all inputs restricted to the same rows, in order;           *)
(* C06  at completion every covered row carries its covering context's     *)
(*      flag, uncovered rows are masked (list form) / UNKNOWN (dict form), *)
(*      and for disjoint windows the arrival order is irrelevant;          *)
(* C18  an entry that cannot be loaded or run contributes nothing and      *)
(*      leaves every other accumulator exactly as without it.              *)
(*                                                                         *)
(* table  : [t, data (stream id -> series), z, lat, lon]  (<<>> = no such  *)
(*          column)                                                        *)
(* config : sequence of contexts [win |-> <<start, end>> (NA = absent),    *)
(*                                entries |-> << [stream, fn, p] ... >>]   *)
(*          fn is a test of QcTests, or "probe" (a test registered at run  *)
(*          time that records its arguments), "boom" (a registered test    *)
(*          that raises), "nomod" / "notest" (unknown module / test name)  *)
(***************************************************************************)
EXTENDS QcTests, TLC

MASKED == -1

NRows(tb)   == Len(tb.t)
\* tb.hastime = FALSE: the stream is given no time array at all (tb.t then only fixes the number of rows);
\* windows cannot be applied and time-based tests lack a required input
TimeOf(tb)  == IF tb.hastime THEN tb.t ELSE <<>>
\* a row without a time (NaT) satisfies no bound: it belongs to a context only if that context has no window at all
InWin(tv, w) == IF tv = NA THEN w[1] = NA /\ w[2] = NA
                ELSE (w[1] = NA \/ tv >= w[1]) /\ (w[2] = NA \/ tv < w[2])
Covered(tb, w) == IF tb.hastime THEN { i \in 1..NRows(tb) : InWin(tb.t[i], w) } ELSE 1..NRows(tb)
Pick(s, S)  == IF s = <<>> THEN <<>>
               ELSE LET idx == SetToSortSeq(S, <) IN [k \in 1..Len(idx) |-> s[idx[k]]]
Rank(i, S)  == Cardinality({ j \in S : j <= i })

RunFns      == Fns \cup {"probe", "probe2", "boom", "needpos"}      \* probe2: a test of the SAME name registered in another module
ModName(fn) == CASE fn = "valid" -> "axds" [] fn \in {"press", "speed", "probe2"} -> "argo" [] OTHER -> "qartod"
Loadable(e) == e.fn \in RunFns                         \* module and test name exist
HasStream(tb, e) == e.stream \in DOMAIN tb.data        \* the data has that stream id

\* the direct call of the test on the window rows
CallOn(tb, e, S) ==
    [fn |-> e.fn, x |-> Pick(tb.data[e.stream], S), t |-> Pick(TimeOf(tb), S), z |-> Pick(tb.z, S),
     lon |-> Pick(tb.lon, S), lat |-> Pick(tb.lat, S), hop |-> <<>>, p |-> e.p]

MissingInput(tb, e) ==                                 \* the stream cannot supply a required input
    \/ e.fn = "dens" /\ tb.z = <<>>
    \/ e.fn \in {"roc", "flat", "att", "clim", "speed"} /\ ~tb.hastime
    \/ e.fn = "needpos" /\ (tb.lat = <<>> \/ tb.lon = <<>>)   \* a registered test whose position arguments have no default

\* <<>> when the test produces no result (it raised), else << flags, admissible >>: where the rule of the test leaves a
\* flag open (a spike next to a missing value), "admissible" holds every flag the rule allows and "flags" one of them
RunResult(tb, e, S) ==
    IF e.fn = "boom" \/ MissingInput(tb, e) THEN <<>>
    ELSE IF e.fn \in {"probe", "probe2", "needpos"} THEN << [i \in 1..Cardinality(S) |-> GOOD], [i \in 1..Cardinality(S) |-> {GOOD}] >>
    ELSE LET r == Rule(CallOn(tb, e, S), FALSE) IN
         IF r.ok THEN << [i \in 1..Len(r.flags) |-> CHOOSE f \in r.flags[i] : TRUE], r.flags >> ELSE <<>>

MkYield(tb, e, w) ==
    LET S == Covered(tb, w)
        rr == RunResult(tb, e, S)
    IN  [win |-> w, stream |-> e.stream, fn |-> e.fn, subset |-> S,
         ok |-> rr # <<>>, flags |-> IF rr = <<>> THEN <<>> ELSE rr[1], adm |-> IF rr = <<>> THEN <<>> ELSE rr[2]]

\* every flag of every yield is fixed by the rules
Determined(ysq) == \A k \in 1..Len(ysq) : \A i \in 1..Len(ysq[k].adm) : Cardinality(ysq[k].adm[i]) = 1

\* contexts with the same window (and region) are one group, in order of first appearance
RECURSIVE DedupWins(_, _)
DedupWins(cfg, seen) ==
    IF cfg = <<>> THEN <<>>
    ELSE IF Head(cfg).win \in seen THEN DedupWins(Tail(cfg), seen)
    ELSE <<Head(cfg).win>> \o DedupWins(Tail(cfg), seen \cup {Head(cfg).win})

EntriesOfWin(cfg, w) == FlattenSeq([k \in 1..Len(cfg) |-> IF cfg[k].win = w THEN cfg[k].entries ELSE <<>>])

Yields(tb, cfg) ==
    \* a context none of whose entries becomes a call does not exist for the run: the groups are ordered by their first call
    LET wins == DedupWins(SelectSeq(cfg, LAMBDA c : \E k \in 1..Len(c.entries) : Loadable(c.entries[k])), {}) IN
    FlattenSeq([g \in 1..Len(wins) |->
        LET es == SelectSeq(EntriesOfWin(cfg, wins[g]), LAMBDA e : Loadable(e) /\ HasStream(tb, e))
        IN  [k \in 1..Len(es) |-> MkYield(tb, es[k], wins[g])]])

-----------------------------------------------------------------------------
(* Accumulators: functions from key <<stream, fn>> to one entry per row    *)
Key(y) == <<y.stream, y.fn>>

ScatterOn(old, y, n) == [i \in 1..n |-> IF i \in y.subset THEN y.flags[Rank(i, y.subset)] ELSE old[i]]

ScatterL(acc, y, n) ==
    IF ~y.ok THEN acc
    ELSE LET old == IF Key(y) \in DOMAIN acc THEN acc[Key(y)] ELSE [i \in 1..n |-> MASKED]
         IN  (Key(y) :> ScatterOn(old, y, n)) @@ acc

ScatterD(acc, y, n) ==
    IF ~y.ok THEN acc
    ELSE LET old == IF Key(y) \in DOMAIN acc THEN acc[Key(y)] ELSE [i \in 1..n |-> UNKNOWN]
         IN  (Key(y) :> ScatterOn(old, y, n)) @@ acc

RECURSIVE FoldL(_, _, _, _), FoldD(_, _, _, _)
FoldL(acc, ys, order, n) == IF order = <<>> THEN acc ELSE FoldL(ScatterL(acc, ys[Head(order)], n), ys, Tail(order), n)
FoldD(acc, ys, order, n) == IF order = <<>> THEN acc ELSE FoldD(ScatterD(acc, ys[Head(order)], n), ys, Tail(order), n)

\* the order-free statement of C06: what each row of each key must hold at completion
CoverAcc(ys, n, fill) ==
    LET keys == { Key(ys[k]) : k \in { j \in 1..Len(ys) : ys[j].ok } } IN
    [key \in keys |->
        [i \in 1..n |->
            LET cov == { k \in 1..Len(ys) : ys[k].ok /\ Key(ys[k]) = key /\ i \in ys[k].subset } IN
            IF cov = {} THEN fill
            ELSE LET k == CHOOSE k \in cov : TRUE IN ys[k].flags[Rank(i, ys[k].subset)]]]

\* windows of one key are pairwise disjoint (the order-independence clause of C06 assumes it)
DisjointYields(ys) ==
    \A a, b \in 1..Len(ys) :
        (a # b /\ ys[a].ok /\ ys[b].ok /\ Key(ys[a]) = Key(ys[b])) => ys[a].subset \cap ys[b].subset = {}

\* C18: the configuration with every entry removed that cannot be loaded / found / run in its context
Healthy(tb, e, w) == Loadable(e) /\ HasStream(tb, e) /\ RunResult(tb, e, Covered(tb, w)) # <<>>
HealthyOnly(tb, cfg) ==
    [k \in 1..Len(cfg) |-> [cfg[k] EXCEPT !.entries = SelectSeq(cfg[k].entries, LAMBDA e : Healthy(tb, e, cfg[k].win))]]

=============================================================================
