------------------------------ MODULE QcBase ------------------------------
(***************************************************************************)
(* Shared vocabulary of the ioos_qc specification.                         *)
(*                                                                         *)
(* Numbers.  TLC has 32-bit integers and no reals, so every observation    *)
(* is a (small) integer, "missing" is the sentinel NA, and every           *)
(* threshold / tolerance is a rational <<num, den>> with den > 0 (absent:  *)
(* <<>>).  All rule comparisons are integer cross multiplications, so      *)
(* "exactly on the threshold" is a real tie, not a rounding accident.  The *)
(* harness maps an abstract integer v to offset + v * unit with unit a     *)
(* power of two, which keeps the implementation's float arithmetic exact.  *)
(***************************************************************************)
EXTENDS Integers, Sequences, FiniteSets

NA == -999999999                 \* the missing observation (NaN / None / masked)

GOOD    == 1
UNKNOWN == 2
SUSPECT == 3
FAIL    == 4
MISSING == 9
Flags   == {GOOD, UNKNOWN, SUSPECT, FAIL, MISSING}

Miss(v) == v = NA
Pres(v) == v # NA

Abs(a)     == IF a < 0 THEN -a ELSE a
Min2(a, b) == IF a <= b THEN a ELSE b
Max2(a, b) == IF a >= b THEN a ELSE b
Sign(a)    == IF a < 0 THEN -1 ELSE IF a > 0 THEN 1 ELSE 0

\* floor division that is correct for negative numerators (b > 0)
FloorDiv(a, b) == IF a >= 0 THEN a \div b ELSE -((-a + b - 1) \div b)
Mod(a, b)      == a - b * FloorDiv(a, b)

(***************************************************************************)
(* Rationals <<num, den>>, den > 0.  Absent is <<>>.                       *)
(***************************************************************************)
Absent      == <<>>
IsGiven(q)  == q # <<>>
IsRat(q)    == /\ Len(q) = 2
               /\ q[2] > 0

\* three-way comparison of the integer (or scaled integer) a*scale with q:
\*   Cmp(a, s, q)  =  sign(a / s - num / den)          (s > 0)
Cmp(a, s, q) == Sign(a * q[2] - q[1] * s)

(***************************************************************************)
(* Tie handling.  A rule is written once, parameterised by "up": whether a *)
(* comparison that is an exact tie counts as crossing the threshold.  The  *)
(* property texts say it does not ("equality does not flag"), so the       *)
(* strict reading is up = FALSE.  For traces whose data are decimal (the   *)
(* repository's own tests) and for standard deviations, where C12 itself   *)
(* excludes spreads within rounding distance of a threshold, both readings *)
(* are accepted.                                                           *)
(***************************************************************************)
Exceeds(c, up) == c > 0 \/ (up /\ c = 0)     \* c = Cmp(...): "value > threshold"
Below(c, up)   == c < 0 \/ (up /\ c = 0)     \* "value < threshold"

(***************************************************************************)
(* Results.  A rule returns either a sequence of *sets of allowed flags*   *)
(* (one per input element: a singleton where the property is specific, a   *)
(* wider set exactly where the property text leaves freedom), or a         *)
(* rejection.                                                              *)
(***************************************************************************)
Ok(fs)        == [ok |-> TRUE,  flags |-> fs, exc |-> ""]
Raises(cls)   == [ok |-> FALSE, flags |-> <<>>, exc |-> cls]   \* cls = "any" : class not named

\* pointwise union of two results of the same shape (used for tie widening)
Widen(r1, r2) ==
    IF r1.ok /\ r2.ok /\ Len(r1.flags) = Len(r2.flags)
    THEN Ok([i \in 1..Len(r1.flags) |-> r1.flags[i] \cup r2.flags[i]])
    ELSE r1

\* an observed outcome (flags or exception class) conforms to a result
Conforms(res, obsFlags, obsExc) ==
    IF res.ok
    THEN /\ obsExc = ""
         /\ Len(obsFlags) = Len(res.flags)
         /\ \A i \in 1..Len(obsFlags) : obsFlags[i] \in res.flags[i]
    ELSE /\ obsExc # ""
         /\ (res.exc = "any" \/ obsExc = res.exc)

\* severity used by the monotonicity property C16 (GOOD < SUSPECT < FAIL);
\* UNKNOWN and MISSING are "not evaluated"
Evaluated(f) == f \in {GOOD, SUSPECT, FAIL}
Sev(f) == CASE f = GOOD -> 1 [] f = SUSPECT -> 2 [] f = FAIL -> 3 [] OTHER -> 0

RECURSIVE SumSeq(_)
SumSeq(s) == IF s = <<>> THEN 0 ELSE Head(s) + SumSeq(Tail(s))

Rev(s) == [i \in 1..Len(s) |-> s[Len(s) + 1 - i]]
=============================================================================
