----------------------------- MODULE QcSession -----------------------------
(***************************************************************************)
(* A session with the QC test functions: a first ("base") call followed by *)
(* calls that are related to it -- the same call again, the same data      *)
(* under stricter parameters, the data shifted / negated / reversed, one   *)
(* observation changed.  The relational properties C01 (repeatability),    *)
(* C13 (mirror), C16 (monotonicity) and C17 (invariance, locality) are     *)
(* relations between the results of the base call and of the derived call. *)
(*                                                                         *)
(* The module is used three ways:                                          *)
(*  - MC_QcSession: TLC enumerates every base call of a bounded domain and *)
(*    every derived call and checks that the rules of QcTests imply the    *)
(*    relations (the properties are mutually consistent);                  *)
(*  - the reachable states (base/derived call + allowed flags) are dumped  *)
(*    and replayed into the real functions (spec -> code);                 *)
(*  - Trace_Qc re-uses Start / Derive to validate sessions recorded from   *)
(*    the real functions (code -> spec).                                   *)
(***************************************************************************)
EXTENDS QcTests, TLC

VARIABLES base,     \* the session's first call (NoCall before it)
          cur,      \* the latest call
          rel,      \* how cur derives from base
          exp       \* Expected(cur): what the rules allow for cur

svars == <<base, cur, rel, exp>>

NoCall == [fn |-> "none"]
NoRel  == [kind |-> "init", i |-> 0, k |-> 0]
BaseRel == [kind |-> "base", i |-> 0, k |-> 0]

RelKinds == {"recall", "tighten", "shiftv", "negate", "shiftt", "shiftboth",
             "reverse", "mirror", "perturb"}

-----------------------------------------------------------------------------
(* Transformations of a call                                               *)
MapPres(s, F(_)) == [i \in 1..Len(s) |-> IF Miss(s[i]) THEN NA ELSE F(s[i])]
AddK(s, k)  == MapPres(s, LAMBDA v : v + k)
NegS(s)     == MapPres(s, LAMBDA v : -v)
AddSpan(s, k) == IF s = <<>> THEN s ELSE [i \in 1..Len(s) |-> IF Miss(s[i]) THEN NA ELSE s[i] + k]

ShiftV(c, k) == [c EXCEPT !.x = AddK(c.x, k)]
Negate(c)    == [c EXCEPT !.x = NegS(c.x)]
ShiftBoth(c, k) ==
    IF c.fn = "gross"
    THEN [c EXCEPT !.x = AddK(c.x, k),
                   !.p = [fail |-> AddSpan(c.p.fail, k), susp |-> AddSpan(c.p.susp, k)]]
    ELSE [c EXCEPT !.x = AddK(c.x, k),
                   !.p = [c.p EXCEPT !.lo = IF Miss(c.p.lo) THEN NA ELSE c.p.lo + k,
                                     !.hi = IF Miss(c.p.hi) THEN NA ELSE c.p.hi + k]]
ShiftT(c, k) ==
    IF c.fn = "clim"
    THEN [c EXCEPT !.t = AddK(c.t, k),
                   !.p = [members |-> [j \in 1..Len(c.p.members) |->
                             [c.p.members[j] EXCEPT !.tspan = AddSpan(c.p.members[j].tspan, k)]]]]
    ELSE [c EXCEPT !.t = AddK(c.t, k)]
ReverseX(c) == [c EXCEPT !.x = Rev(c.x)]
Mirror(c)  == [c EXCEPT !.x = Rev(c.x), !.z = Rev(c.z)]

AllAbsolute(c) == \A j \in 1..Len(c.p.members) : c.p.members[j].period = ""
NothingMissing(c) == /\ \A i \in 1..Len(c.x) : Pres(c.x[i])
                     /\ \A i \in 1..Len(c.z) : Pres(c.z[i])

\* which relation kinds the properties state for which test
Applies(kind, c) ==
    CASE kind = "recall"    -> TRUE
      [] kind = "tighten"   -> c.fn \in {"gross", "valid", "clim", "loc", "spike", "roc",
                                         "speed", "flat", "att", "dens"}
      [] kind = "shiftv"    -> c.fn \in {"spike", "roc", "flat", "att", "dens"}
      [] kind = "negate"    -> c.fn \in {"spike", "roc", "flat", "att"}
      [] kind = "shiftt"    -> \/ c.fn \in {"roc", "flat", "att", "speed"}
                               \/ c.fn = "clim" /\ AllAbsolute(c)
      [] kind = "shiftboth" -> c.fn \in {"gross", "valid"}
      [] kind = "reverse"   -> c.fn = "spike"
      [] kind = "mirror"    -> c.fn = "dens" /\ NothingMissing(c)
      [] kind = "perturb"   -> \/ c.fn \in {"gross", "valid", "clim", "loc", "spike", "dens",
                                            "roc", "speed", "flat"}
                               \/ c.fn = "att" /\ Pres(c.p.period)
      [] OTHER -> FALSE

-----------------------------------------------------------------------------
(* "at least as strict" (C16), per test                                    *)
Nested(inner, outer) ==           \* spans in either order
    Span(inner)[1] >= Span(outer)[1] /\ Span(inner)[2] <= Span(outer)[2]
\* an optional upper threshold got stricter: not larger, or newly given
LeOpt(q2, q1) == IF IsGiven(q1) THEN IsGiven(q2) /\ q2[1] * q1[2] <= q1[1] * q2[2] ELSE TRUE
\* an optional lower threshold got stricter: not smaller, or newly given
GeOpt(q2, q1) == IF IsGiven(q1) THEN IsGiven(q2) /\ q2[1] * q1[2] >= q1[1] * q2[2] ELSE TRUE
NestedOpt(s2, s1) == IF IsGiven(s1) THEN IsGiven(s2) /\ Nested(s2, s1) ELSE TRUE

Stricter(c2, c1) ==     \* parameters of c2 at least as strict as those of c1 (same test)
    LET p == c1.p   q == c2.p IN
    CASE c1.fn = "gross" -> Nested(q.fail, p.fail) /\ NestedOpt(q.susp, p.susp)
      [] c1.fn = "valid" -> /\ q.sincl = p.sincl /\ q.eincl = p.eincl /\ q.kind = p.kind
                            /\ (Pres(p.lo) => Pres(q.lo) /\ q.lo >= p.lo)
                            /\ (Pres(p.hi) => Pres(q.hi) /\ q.hi <= p.hi)
      [] c1.fn = "clim"  -> /\ Len(q.members) = Len(p.members)
                            /\ \A j \in 1..Len(p.members) :
                                 LET m == p.members[j]  n == q.members[j] IN
                                 /\ n.period = m.period /\ Span(n.tspan) = Span(m.tspan)
                                 /\ (IF IsGiven(m.zspan) THEN IsGiven(n.zspan) /\ Span(n.zspan) = Span(m.zspan)
                                                          ELSE ~IsGiven(n.zspan))
                                 /\ Nested(n.vspan, m.vspan)
                                 /\ NestedOpt(n.fspan, m.fspan)
      [] c1.fn = "loc"   -> /\ LET b1 == IF p.bbox = <<>> THEN <<-360, -180, 360, 180>> ELSE p.bbox
                                   b2 == IF q.bbox = <<>> THEN <<-360, -180, 360, 180>> ELSE q.bbox
                               IN  Len(b1) = 4 /\ Len(b2) = 4
                                   /\ b2[1] >= b1[1] /\ b2[2] >= b1[2] /\ b2[3] <= b1[3] /\ b2[4] <= b1[4]
                            /\ LeOpt(q.rmax, p.rmax) /\ q.shapes = p.shapes
      [] c1.fn = "spike" -> q.method = p.method /\ LeOpt(q.st, p.st) /\ LeOpt(q.ft, p.ft)
      [] c1.fn = "roc"   -> LeOpt(q.thr, p.thr)
      [] c1.fn = "speed" -> LeOpt(q.st, p.st) /\ LeOpt(q.ft, p.ft)
      [] c1.fn = "flat"  -> q.st <= p.st /\ q.ft <= p.ft /\ GeOpt(q.tol, p.tol)
      [] c1.fn = "att"   -> /\ q.kind = p.kind /\ q.period = p.period
                            /\ q.minobs = p.minobs /\ q.minperiod = p.minperiod
                            /\ GeOpt(q.st, p.st) /\ GeOpt(q.ft, p.ft)
      [] c1.fn = "dens"  -> GeOpt(q.st, p.st) /\ GeOpt(q.ft, p.ft)
      [] OTHER -> FALSE

SameData(c2, c1) == /\ c2.fn = c1.fn /\ c2.x = c1.x /\ c2.t = c1.t /\ c2.z = c1.z
                    /\ c2.lon = c1.lon /\ c2.lat = c1.lat /\ c2.hop = c1.hop

\* c2 differs from c1 in the single observation i only
PerturbOf(c2, c1, i) ==
    /\ c2.fn = c1.fn /\ c2.p = c1.p /\ c2.t = c1.t /\ c2.z = c1.z
    /\ IF c1.fn \in {"loc", "speed"}
       THEN /\ c2.x = c1.x
            /\ Len(c2.lon) = Len(c1.lon) /\ Len(c2.lat) = Len(c1.lat) /\ Len(c2.hop) = Len(c1.hop)
            /\ i \in 1..Len(c1.lon)
            /\ \A j \in 1..Len(c1.lon) : j # i => c2.lon[j] = c1.lon[j] /\ c2.lat[j] = c1.lat[j]
            /\ \A j \in 1..Len(c1.hop) : j \notin {i, i+1} => c2.hop[j] = c1.hop[j]
       ELSE /\ c2.lon = c1.lon /\ c2.lat = c1.lat /\ c2.hop = c1.hop
            /\ Len(c2.x) = Len(c1.x)
            /\ i \in 1..Len(c1.x)
            /\ \A j \in 1..Len(c1.x) : j # i => c2.x[j] = c1.x[j]

\* cur is a well-formed r-derivative of base
RelOK(r, b, c) ==
    /\ Applies(r.kind, b)
    /\ CASE r.kind = "recall"    -> c = b
         [] r.kind = "tighten"   -> SameData(c, b) /\ Stricter(c, b)
         [] r.kind = "shiftv"    -> c = ShiftV(b, r.k)
         [] r.kind = "negate"    -> c = Negate(b)
         [] r.kind = "shiftt"    -> c = ShiftT(b, r.k)
         [] r.kind = "shiftboth" -> c = ShiftBoth(b, r.k)
         [] r.kind = "reverse"   -> c = ReverseX(b)
         [] r.kind = "mirror"    -> c = Mirror(b)
         [] r.kind = "perturb"   -> PerturbOf(c, b, r.i)

-----------------------------------------------------------------------------
(* The relations on results.  FB / FC are sequences of SETS of flags: the   *)
(* allowed sets when the rules are checked against each other (MC), the    *)
(* singletons of the observed flags when recorded executions are checked.  *)
MonoF(a, b) == /\ Evaluated(a) <=> Evaluated(b)
               /\ Evaluated(a) => Sev(a) <= Sev(b)
MonoSets(A, B) == /\ \A a \in A : \E b \in B : MonoF(a, b)
                  /\ \A b \in B : \E a \in A : MonoF(a, b)

\* positions whose flag may depend on the flag of position i's observation (C17)
Nbhd(b, i) ==
    LET n == N(b) IN
    CASE b.fn \in {"gross", "valid", "clim"} -> {i}
      [] b.fn = "loc"   -> IF IsGiven(b.p.rmax) THEN {i, i+1} ELSE {i}
      [] b.fn \in {"spike", "dens"} -> {i-1, i, i+1}
      [] b.fn \in {"roc", "speed"}  -> {i, i+1}
      [] b.fn = "flat"  -> LET D == IF n >= 2 THEN b.t[2] - b.t[1] ELSE 1
                               k == Max2(b.p.st \div D, b.p.ft \div D)
                           IN  i..(i + k)
      [] b.fn = "att"   -> { j \in 1..n : b.t[j] - b.p.period < b.t[i] /\ b.t[i] <= b.t[j] }
      [] OTHER -> 1..n

\* positions where an exact tie (lenient traces, standard deviations) leaves
\* the flag open: two executions may legitimately resolve it differently
TiePos(c, len) ==
    LET r0 == Rule(c, FALSE)  r1 == Rule(c, TRUE) IN
    IF (len \/ AlwaysTie(c)) /\ r0.ok /\ r1.ok
    THEN { i \in 1..Len(r0.flags) : r0.flags[i] # r1.flags[i] }
    ELSE {}          \* exact data: a tie is decided by the rule (equality does not flag), nothing is open

RelHolds(r, b, c, FB, FC, len) ==
    LET n == Len(FB)
        open == TiePos(b, len) \cup TiePos(c, len)
        Firm(S) == S \ open
    IN
    /\ Len(FC) = n
    /\ CASE r.kind \in {"recall", "shiftv", "negate", "shiftt", "shiftboth"} ->
              \A i \in Firm(1..n) : FC[i] = FB[i]
         [] r.kind = "tighten" ->
              \A i \in Firm(1..n) : MonoSets(FB[i], FC[i])
         [] r.kind \in {"reverse", "mirror"} ->
              \A i \in 1..n : (i \notin open /\ (n + 1 - i) \notin TiePos(b, len)) => FC[i] = FB[n + 1 - i]
         [] r.kind = "perturb" ->
              \A i \in Firm(1..n) : i \notin Nbhd(b, r.i) => FC[i] = FB[i]
         [] OTHER -> TRUE

-----------------------------------------------------------------------------
(* The state machine                                                       *)
Lenient == FALSE        \* model checking uses the strict reading of ties

Init == base = NoCall /\ cur = NoCall /\ rel = NoRel /\ exp = Ok(<<>>)

StartL(c, len) ==
    /\ base' = c
    /\ cur' = c
    /\ rel' = BaseRel
    /\ exp' = Expected(c, len)

DeriveL(r, c, len) ==
    /\ base.fn # "none"
    /\ RelOK(r, base, c)
    /\ cur' = c
    /\ rel' = r
    /\ exp' = Expected(c, len)
    /\ UNCHANGED base

Start(c)     == StartL(c, Lenient)
Derive(r, c) == DeriveL(r, c, Lenient)

-----------------------------------------------------------------------------
(* Invariants                                                              *)
\* C01: one non-empty set of valid flags per input element, or a rejection
ShapeOK(c, e) ==
    e.ok => /\ Len(e.flags) = N(c)
            /\ \A i \in 1..Len(e.flags) : e.flags[i] # {} /\ e.flags[i] \subseteq Flags

InvC01 == cur.fn # "none" => ShapeOK(cur, exp)

\* C02: whatever flag a rule allows respects the missing-data discipline
InvC02 ==
    (cur.fn # "none" /\ exp.ok) =>
        \A i \in 1..Len(exp.flags) : \A f \in exp.flags[i] :
            C02Holds(cur, [j \in 1..Len(exp.flags) |-> IF j = i THEN f
                             ELSE IF ObsMissing(cur, j) THEN MISSING ELSE GOOD])

\* C13 / C16 / C17 and repeatability: the relation the session step claims
InvRel ==
    (rel.kind \in RelKinds) =>
        LET eb == Expected(base, Lenient) IN
        (eb.ok /\ exp.ok) => RelHolds(rel, base, cur, eb.flags, exp.flags, Lenient)

\* a derived call of a well-formed call is rejected only for parameter reasons
InvRaise ==
    (rel.kind \in (RelKinds \ {"tighten"})) =>
        (Expected(base, Lenient).ok <=> exp.ok)
=============================================================================
