------------------------------ MODULE QcTests ------------------------------
(***************************************************************************)
(* The QC rules of ioos_qc (qartod, argo, axds modules), transcribed from  *)
(* the property statements C01..C03, C08..C14 -- NOT from the code.        *)
(*                                                                         *)
(* A call is a record                                                      *)
(*   [fn, x, t, z, lon, lat, hop, p]                                       *)
(* fn   : which test                                                       *)
(* x    : the observation series (integers, NA = missing)                  *)
(* t    : whole seconds (relative; absolute epoch seconds for "clim")      *)
(* z    : depth series (<<>> when the caller supplied none)                *)
(* lon, lat : positions in half degrees (NA = missing coordinate)          *)
(* hop  : hop[i] = floor of the WGS84 geodesic distance in metres between  *)
(*        positions i-1 and i (NA when either is not fully present; 0 iff  *)
(*        the distance is exactly 0) -- computed by the trusted base       *)
(*        (geographiclib called directly), see DESIGN 3.3                  *)
(* p    : the parameter record of that test                                *)
(*                                                                         *)
(* Every rule returns QcBase!Ok(<<set of allowed flags per point>>) or     *)
(* QcBase!Raises(class).  The sets are singletons wherever a property      *)
(* statement is specific (DESIGN 5.0 lists every non-singleton case).      *)
(***************************************************************************)
EXTENDS QcBase, Calendar, SequencesExt, FiniteSetsExt

Span(s) == << Min2(s[1], s[2]), Max2(s[1], s[2]) >>
Outside(v, s) == v < s[1] \/ v > s[2]           \* strictly outside a sorted span

PresentIn(x, S) == { j \in S : Pres(x[j]) }
MaxOf(x, S) == CHOOSE m \in { x[j] : j \in S } : \A j \in S : x[j] <= m
MinOf(x, S) == CHOOSE m \in { x[j] : j \in S } : \A j \in S : x[j] >= m
SumOf(x, S)  == FoldSet(LAMBDA j, acc : acc + x[j], 0, S)
SumSq(x, S)  == FoldSet(LAMBDA j, acc : acc + x[j] * x[j], 0, S)

-----------------------------------------------------------------------------
(* C03  qartod.gross_range_test                                            *)
(* p = [fail |-> <<a,b>>, susp |-> <<>> | <<c,d>>]                         *)
GrossRange(c, up) ==
    LET f    == Span(c.p.fail)
        hasS == IsGiven(c.p.susp)
        s    == IF hasS THEN Span(c.p.susp) ELSE f
    IN  IF Len(c.p.fail) # 2                       \* a span is a pair (only the pipeline drivers hand over anything else)
        THEN Raises("ValueError")
        ELSE IF hasS /\ (s[1] < f[1] \/ s[2] > f[2])
        THEN Raises("ValueError")
        ELSE Ok([i \in 1..Len(c.x) |->
                 LET v == c.x[i] IN
                 IF Miss(v) THEN {MISSING}
                 ELSE IF Outside(v, f) THEN {FAIL}
                 ELSE IF hasS /\ Outside(v, s) THEN {SUSPECT}
                 ELSE {GOOD}])

(* C03  axds.valid_range_test                                              *)
(* p = [lo, hi (NA = unbounded), sincl, eincl, kind \in {"num","time"}]    *)
ValidRange(c, up) ==
    Ok([i \in 1..Len(c.x) |->
        LET v == c.x[i] IN
        IF Miss(v) THEN {MISSING}
        ELSE IF \/ Pres(c.p.lo) /\ (IF c.p.sincl THEN v < c.p.lo ELSE v <= c.p.lo)
                \/ Pres(c.p.hi) /\ (IF c.p.eincl THEN v > c.p.hi ELSE v >= c.p.hi)
             THEN {FAIL}
             ELSE {GOOD}])

-----------------------------------------------------------------------------
(* C09  qartod.spike_test                                                  *)
(* p = [st, ft (rationals or <<>>), method]                                *)
\* twice the spike magnitude d (so that the average needs no division)
SpikeD2(x, n, method) ==
    IF method = "average"
    THEN Abs(2 * x[n] - x[n-1] - x[n+1])
    ELSE LET a == x[n] - x[n-1]
             b == x[n+1] - x[n]
         IN  IF a * b < 0 THEN 2 * Min2(Abs(a), Abs(b)) ELSE 0

Spike(c, up) ==
    LET x == c.x
        n == Len(x)
    IN  IF c.p.method \notin {"average", "differential"}
        THEN Raises("ValueError")
        ELSE Ok([i \in 1..n |->
                 IF i = 1 \/ i = n
                 THEN (IF Miss(x[i]) THEN {MISSING, UNKNOWN} ELSE {UNKNOWN})
                 ELSE IF Miss(x[i]) THEN {MISSING}
                 ELSE IF Miss(x[i-1]) \/ Miss(x[i+1]) THEN {MISSING, UNKNOWN}
                 ELSE LET d2 == SpikeD2(x, i, c.p.method) IN
                      IF IsGiven(c.p.ft) /\ Exceeds(Cmp(d2, 2, c.p.ft), up) THEN {FAIL}
                      ELSE IF IsGiven(c.p.st) /\ Exceeds(Cmp(d2, 2, c.p.st), up) THEN {SUSPECT}
                      ELSE {GOOD}])

-----------------------------------------------------------------------------
(* C10  qartod.rate_of_change_test          p = [thr]                      *)
RateOfChange(c, up) ==
    LET x == c.x
        t == c.t
    IN  IF Len(x) # Len(t)
        THEN Raises("ValueError")
        ELSE Ok([i \in 1..Len(x) |->
                 IF Miss(x[i]) THEN {MISSING}
                 ELSE IF /\ i > 1
                         /\ Pres(x[i-1])
                         /\ Exceeds(Cmp(Abs(x[i] - x[i-1]), t[i] - t[i-1], c.p.thr), up)
                      THEN {SUSPECT}
                      ELSE {GOOD}])

-----------------------------------------------------------------------------
(* Distances.  hop = f means the true distance d lies in (f, f+1) metres,  *)
(* except f = 0 which means exactly 0.  "d / dt > q" is decided when it    *)
(* can be and reported ambiguous otherwise (the harness never places a     *)
(* threshold within a metre of a table value, so ambiguity is a fallback   *)
(* that prevents false alarms, not a normal case).                         *)
HopExceeds(f, dt, q, up) ==       \* "yes" | "no" | "amb"
    IF f = 0
    THEN (IF Exceeds(Cmp(0, dt, q), up) THEN "yes" ELSE "no")
    ELSE IF Cmp(f, dt, q) >= 0 THEN "yes"
    ELSE IF Cmp(f + 1, dt, q) <= 0 THEN "no"
    ELSE "amb"

Full(c, i)     == Pres(c.lon[i]) /\ Pres(c.lat[i])
BothMiss(c, i) == Miss(c.lon[i]) /\ Miss(c.lat[i])

(* C10  argo.speed_test                     p = [st, ft]                   *)
Speed(c, up) ==
    LET n == Len(c.lon) IN
    IF Len(c.lat) # n \/ Len(c.t) # n
    THEN Raises("ValueError")
    ELSE Ok([i \in 1..n |->
             IF i = 1
             THEN (IF BothMiss(c, 1) THEN {MISSING, UNKNOWN} ELSE {UNKNOWN})
             ELSE IF BothMiss(c, i) THEN {MISSING}
             ELSE IF ~Full(c, i) \/ ~Full(c, i-1) THEN {MISSING, UNKNOWN, GOOD}
             ELSE LET dt == c.t[i] - c.t[i-1]
                      hf == HopExceeds(c.hop[i], dt, c.p.ft, up)
                      hs == HopExceeds(c.hop[i], dt, c.p.st, up)
                  IN  (IF hf \in {"yes", "amb"} THEN {FAIL} ELSE {})
                      \cup (IF hf \in {"no", "amb"}
                            THEN (IF hs \in {"yes", "amb"} THEN {SUSPECT} ELSE {})
                                 \cup (IF hs \in {"no", "amb"} THEN {GOOD} ELSE {})
                            ELSE {})])

(* C14  qartod.location_test                                               *)
(* p = [bbox |-> <<>> (default: whole globe) | <<minx,miny,maxx,maxy>>,    *)
(*      rmax |-> <<>> | rational metres,                                   *)
(*      shapes |-> "same" | "differ" (the two arrays hold the same number  *)
(*      of elements but are shaped differently, e.g. (1,n) against (n,))]  *)
Location(c, up) ==
    LET n  == Len(c.lon)
        bb == IF c.p.bbox = <<>> THEN << -360, -180, 360, 180 >> ELSE c.p.bbox
    IN  IF Len(c.lat) # n \/ Len(bb) # 4 \/ c.p.shapes = "differ"
        THEN Raises("any")
        ELSE Ok([i \in 1..n |->
                 IF BothMiss(c, i) THEN {MISSING}
                 ELSE IF ~Full(c, i) THEN {FAIL}
                 ELSE IF \/ c.lon[i] < bb[1] \/ c.lat[i] < bb[2]
                         \/ c.lon[i] > bb[3] \/ c.lat[i] > bb[4]
                      THEN {FAIL}
                 ELSE IF IsGiven(c.p.rmax) /\ i > 1 /\ Full(c, i-1)
                      THEN LET h == HopExceeds(c.hop[i], 1, c.p.rmax, up) IN
                           (IF h \in {"yes", "amb"} THEN {SUSPECT} ELSE {})
                           \cup (IF h \in {"no", "amb"} THEN {GOOD} ELSE {})
                      ELSE {GOOD}])

-----------------------------------------------------------------------------
(* C11  qartod.flat_line_test      p = [st, ft (seconds), tol (rational)]  *)
(* The series is regularly sampled; D is its step.                         *)
FlatHit(x, i, k, tol, up) ==          \* the k+1 points ending at i vary less than tol
    /\ i - k >= 1
    /\ LET P == PresentIn(x, (i-k)..i) IN
       /\ P # {}
       /\ Below(Cmp(MaxOf(x, P) - MinOf(x, P), 1, tol), up)

FlatLine(c, up) ==
    LET x == c.x
        n == Len(x)
        D == IF n >= 2 THEN c.t[2] - c.t[1] ELSE 1
        kS == c.p.st \div D
        kF == c.p.ft \div D
    IN  Ok([i \in 1..n |->
            IF Miss(x[i]) THEN {MISSING}
            ELSE IF n < 3 THEN {GOOD}
            ELSE IF FlatHit(x, i, kF, c.p.tol, up) THEN {FAIL}
            ELSE IF FlatHit(x, i, kS, c.p.tol, up) THEN {SUSPECT}
            ELSE {GOOD}])

-----------------------------------------------------------------------------
(* C12  qartod.attenuated_signal_test                                      *)
(* p = [st, ft (rationals >= 0), period (NA | seconds > 0),                *)
(*      minobs (NA | n), minperiod (NA | seconds), kind]                   *)
\* sign(spread - thr) for the present values with indices P
\*   range : max - min                       against thr
\*   std   : variance (population or sample) against thr^2
SpreadCmp(x, P, thr, kind, sample) ==
    IF kind = "range"
    THEN Cmp(MaxOf(x, P) - MinOf(x, P), 1, thr)
    ELSE LET cnt == Cardinality(P)
             s   == SumOf(x, P)
             num == cnt * SumSq(x, P) - s * s            \* = cnt^2 * population variance
             den == IF sample THEN cnt * (cnt - 1) ELSE cnt * cnt
         IN  Sign(num * thr[2] * thr[2] - thr[1] * thr[1] * den)

\* the sampling step used to turn min_period into a count: the median of the
\* time steps (the axis is regular whenever min_period is exercised)
MedianStep(t) ==
    LET d == SortSeq([i \in 1..(Len(t) - 1) |-> t[i+1] - t[i]], <)
        m == Len(d)
    IN  IF m = 0 THEN 1
        ELSE IF m % 2 = 1 THEN d[(m + 1) \div 2] ELSE (d[m \div 2] + d[m \div 2 + 1]) \div 2

Attenuated(c, up) ==
    LET x == c.x
        t == c.t
        n == Len(x)
        windowed == Pres(c.p.period)
        req == IF ~windowed THEN 1
               ELSE IF Pres(c.p.minobs) THEN c.p.minobs
               ELSE IF Pres(c.p.minperiod) THEN c.p.minperiod \div MedianStep(t)
               ELSE 1
    IN  IF c.p.kind \notin {"std", "range"}
        THEN Raises("ValueError")
        ELSE Ok([i \in 1..n |->
                 IF Miss(x[i]) THEN {MISSING}
                 ELSE LET W == IF windowed
                               THEN { j \in 1..n : t[i] - c.p.period < t[j] /\ t[j] <= t[i] }
                               ELSE 1..n
                          P == PresentIn(x, W)
                          cnt == Cardinality(P)
                      IN  IF cnt < req \/ cnt < 1 \/ (windowed /\ c.p.kind = "std" /\ cnt < 2)
                          THEN {UNKNOWN}
                          ELSE IF Below(SpreadCmp(x, P, c.p.ft, c.p.kind, windowed), up) THEN {FAIL}
                          ELSE IF Below(SpreadCmp(x, P, c.p.st, c.p.kind, windowed), up) THEN {SUSPECT}
                          ELSE {GOOD}])

-----------------------------------------------------------------------------
(* C13  qartod.density_inversion_test     p = [st, ft (rationals or <<>>)] *)
DensityInversion(c, up) ==
    LET x == c.x
        z == c.z
        n == Len(x)
        MissAt(i) == Miss(x[i]) \/ Miss(z[i])
        PairOk(i) == ~MissAt(i) /\ ~MissAt(i+1)
        Delta(i)  == Sign(z[i+1] - z[i]) * (x[i+1] - x[i])
        PairBelow(i, q) == /\ i >= 1 /\ i < n
                           /\ IsGiven(q)
                           /\ PairOk(i)
                           /\ Below(Cmp(Delta(i), 1, q), up)
    IN  IF Len(z) # n
        THEN Raises("ValueError")
        ELSE Ok([i \in 1..n |->
                 IF n = 1
                 THEN (IF MissAt(1) THEN {MISSING, UNKNOWN} ELSE {UNKNOWN})
                 ELSE IF MissAt(i) \/ (i > 1 /\ MissAt(i-1)) THEN {MISSING}
                 ELSE IF PairBelow(i, c.p.ft) \/ PairBelow(i-1, c.p.ft) THEN {FAIL}
                 ELSE IF PairBelow(i, c.p.st) \/ PairBelow(i-1, c.p.st) THEN {SUSPECT}
                 ELSE {GOOD}])

(* C13  argo.pressure_increasing_test     p = [ ]                          *)
(* Direction = sign of the mean step = sign(last - first).  The statement  *)
(* gives no direction when that is 0, and does not mention missing data.   *)
PressureIncreasing(c, up) ==
    LET x == c.x
        n == Len(x)
        anyNA == \E i \in 1..n : Miss(x[i])
        dir == IF n >= 2 /\ ~anyNA THEN Sign(x[n] - x[1]) ELSE 0
    IN  Ok([i \in 1..n |->
            IF anyNA
            THEN (IF Miss(x[i]) \/ (i > 1 /\ Miss(x[i-1]))
                  THEN {GOOD, SUSPECT, UNKNOWN, MISSING}
                  ELSE {GOOD, SUSPECT})
            ELSE IF i = 1 THEN {GOOD}
            ELSE LET step == x[i] - x[i-1] IN
                 IF dir > 0 THEN (IF step > 0 THEN {GOOD} ELSE {SUSPECT})
                 ELSE IF dir < 0 THEN (IF step < 0 THEN {GOOD} ELSE {SUSPECT})
                 ELSE IF step = 0 THEN {SUSPECT} ELSE {GOOD, SUSPECT}])

-----------------------------------------------------------------------------
(* C08  qartod.climatology_test                                            *)
(* p = [members |-> << [tspan, vspan, fspan (<<>>|span), zspan (<<>>|span),*)
(*                      period ("" = absolute epoch seconds)] ... >>]      *)
ZAt(c, i) == IF Len(c.z) = 0 THEN NA ELSE c.z[i]

MemberMatches(m, tsec, zv) ==
    LET tv == IF m.period = "" THEN tsec ELSE PeriodValue(m.period, tsec)
        ts == Span(m.tspan)
    IN  /\ tsec # NA                     \* an observation without a time (NaT) lies in no time span
        /\ tv >= ts[1] /\ tv <= ts[2]
        /\ IsGiven(m.zspan) =>
              LET zs == Span(m.zspan) IN Pres(zv) /\ zv >= zs[1] /\ zv <= zs[2]

Climatology(c, up) ==
    LET ms == c.p.members IN
    Ok([i \in 1..Len(c.x) |->
        LET matching == { k \in 1..Len(ms) : MemberMatches(ms[k], c.t[i], ZAt(c, i)) } IN
        IF matching = {}
        THEN (IF Miss(c.x[i]) THEN {MISSING, UNKNOWN} ELSE {UNKNOWN})
        ELSE IF Miss(c.x[i]) THEN {MISSING}
        ELSE LET m == ms[Max(matching)]
                 v == c.x[i]
             IN  IF IsGiven(m.fspan) /\ Outside(v, Span(m.fspan)) THEN {FAIL}
                 ELSE IF Outside(v, Span(m.vspan)) THEN {SUSPECT}
                 ELSE {GOOD}])

(* Growth beyond C08: ClimatologyConfig.values(t, z), the lookup API.  It is *)
(* written as the code behaves and its membership rule is NOT that of the   *)
(* test (MemberMatches): the lower end of the time span and of the depth    *)
(* span is exclusive, and a member applies only if depth and depth span are *)
(* both given or both absent.  (LookupStricter: whatever the lookup matches *)
(* the test matches too; the converse fails exactly at those points.)       *)
LookupMatches(m, tsec, zv) ==
    LET tv == IF m.period = "" THEN tsec ELSE PeriodValue(m.period, tsec)
        ts == Span(m.tspan)
    IN  /\ tv > ts[1] /\ tv <= ts[2]
        /\ \/ (Pres(zv) /\ IsGiven(m.zspan) /\ LET zs == Span(m.zspan) IN zv > zs[1] /\ zv <= zs[2])
           \/ (~Pres(zv) /\ ~IsGiven(m.zspan))
\* the valid span of the last member the lookup matches (<<>>: none)
ClimValues(ms, tsec, zv) ==
    LET matching == { k \in 1..Len(ms) : LookupMatches(ms[k], tsec, zv) } IN
    IF matching = {} THEN <<>> ELSE Span(ms[Max(matching)].vspan)
LookupStricter(m, tsec, zv) == LookupMatches(m, tsec, zv) => MemberMatches(m, tsec, zv)

-----------------------------------------------------------------------------
Fns == {"gross", "valid", "spike", "roc", "flat", "att", "dens", "press",
        "loc", "speed", "clim"}

Rule(c, up) ==
    CASE c.fn = "gross" -> GrossRange(c, up)
      [] c.fn = "valid" -> ValidRange(c, up)
      [] c.fn = "spike" -> Spike(c, up)
      [] c.fn = "roc"   -> RateOfChange(c, up)
      [] c.fn = "flat"  -> FlatLine(c, up)
      [] c.fn = "att"   -> Attenuated(c, up)
      [] c.fn = "dens"  -> DensityInversion(c, up)
      [] c.fn = "press" -> PressureIncreasing(c, up)
      [] c.fn = "loc"   -> Location(c, up)
      [] c.fn = "speed" -> Speed(c, up)
      [] c.fn = "clim"  -> Climatology(c, up)

\* standard deviations are compared through their squares; an exact tie is
\* always "within rounding distance" in the sense of C12
AlwaysTie(c) == c.fn = "att" /\ c.p.kind = "std"

Expected(c, lenient) ==
    IF lenient \/ AlwaysTie(c)
    THEN Widen(Rule(c, FALSE), Rule(c, TRUE))
    ELSE Rule(c, FALSE)

-----------------------------------------------------------------------------
(* C02, stated on its own so that a slip in a rule above cannot hide a     *)
(* break: which positions hold a missing observation, where the test is    *)
(* "undefined anyway", and where a present observation may be MISSING.     *)
N(c) == IF c.fn \in {"loc", "speed"} THEN Len(c.lon) ELSE Len(c.x)

DocumentsMissing(c) == c.fn # "press"

ObsMissing(c, i) ==
    IF c.fn \in {"loc", "speed"} THEN BothMiss(c, i)
    ELSE IF c.fn = "dens" THEN Miss(c.x[i])
    ELSE Miss(c.x[i])

\* the test gives UNKNOWN to a present value at i whatever the parameters
UndefinedAnyway(c, i) ==
    CASE c.fn = "spike" -> i = 1 \/ i = N(c)
      [] c.fn = "speed" -> i = 1
      [] c.fn = "dens"  -> N(c) = 1
      [] c.fn = "clim"  -> \A k \in 1..Len(c.p.members) :
                               ~MemberMatches(c.p.members[k], c.t[i], ZAt(c, i))
      [] OTHER -> FALSE

\* a value the test needs to judge position i is itself missing
NeedsMissing(c, i) ==
    CASE c.fn = "spike" -> i > 1 /\ i < N(c) /\ (Miss(c.x[i-1]) \/ Miss(c.x[i+1]))
      [] c.fn = "dens"  -> Miss(c.z[i]) \/ (i > 1 /\ (Miss(c.x[i-1]) \/ Miss(c.z[i-1])))
      [] c.fn = "speed" -> ~Full(c, i) \/ (i > 1 /\ ~Full(c, i-1))
      [] c.fn = "loc"   -> FALSE
      [] OTHER -> FALSE

C02Holds(c, flags) ==
    DocumentsMissing(c) /\ Len(flags) = N(c) =>
        \A i \in 1..N(c) :
            /\ ObsMissing(c, i) =>
                  \/ flags[i] = MISSING
                  \/ flags[i] = UNKNOWN /\ UndefinedAnyway(c, i)
            /\ (~ObsMissing(c, i) /\ flags[i] = MISSING) => NeedsMissing(c, i)
=============================================================================
