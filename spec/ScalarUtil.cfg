INIT TraceInit
NEXT Step
CHECK_DEADLOCK FALSE
