----------------------------- MODULE ScalarUtil -----------------------------
(* Growth beyond the listed properties: the small predicates every test     *)
(* leans on.                                                                *)
(*  isnan(v)             "Return True if a value is NaN" -- used for span   *)
(*                       bounds (valid_range), depth spans and depth values *)
(*                       (climatology).  IsMissingValue says which KINDS of *)
(*                       value count as "not given".                        *)
(*  isfixedlength(l, n)  True for a list / tuple of exactly n elements,     *)
(*                       ValueError for another length, TypeError for       *)
(*                       anything that is not a list / tuple.               *)
(*  masked_float64(v)    the mask of the result: exactly the positions      *)
(*                       holding None, NaN, an infinity or a masked element *)
(*                       (MaskOf), and the present values unchanged.        *)
(* Events: [ev, kind, ...]; value kinds are strings, numbers small ints.    *)
EXTENDS Integers, Sequences, Json, IOUtils, TLC, TLCExt

MissingKinds == {"none", "np_nan", "float_nan", "np_float64_nan", "masked"}
PresentKinds == {"zero", "int", "float", "neg", "str"}
IsMissingValue(kind) == kind \in MissingKinds

SeqKinds == {"list", "tuple"}
FixedOutcome(kind, len, want) ==
    IF kind \notin SeqKinds THEN "TypeError" ELSE IF len # want THEN "ValueError" ELSE "True"

\* element kinds of masked_float64 inputs: "v" a present finite value, the rest missing
MaskOf(kinds) == [i \in 1..Len(kinds) |-> kinds[i] # "v"]

TraceLog == ndJsonDeserialize(IOEnv.TRACE_FILE)
VARIABLE l
Clause(e, name, ok) == IF ok THEN TRUE ELSE PrintT(<<"REJECT", e.id, name>>)
TraceInit == l = 1
Step == /\ l <= Len(TraceLog)
        /\ LET e == TraceLog[l] IN
           /\ CASE e.ev = "isnan" -> /\ Clause(e, "isnan_total", e.exc = "")
                                     /\ Clause(e, "isnan_value", e.exc = "" => e.out = IsMissingValue(e.kind))
                [] e.ev = "fixed" -> Clause(e, "fixed_outcome", e.out = FixedOutcome(e.kind, e.len, e.want))
                [] e.ev = "mf64"  -> /\ Clause(e, "mf64_total", e.exc = "")
                                     /\ Clause(e, "mf64_mask", e.exc = "" => e.mask = MaskOf(e.kinds))
                                     /\ Clause(e, "mf64_values", e.exc = "" =>
                                            \A i \in 1..Len(e.kinds) : e.kinds[i] = "v" => e.vals[i] = e.src[i])
                                     /\ Clause(e, "mf64_pure", e.exc = "" => e.src_after = e.src_before)
           /\ IF l = Len(TraceLog) THEN PrintT(<<"DONE", l>>) ELSE TRUE
        /\ l' = l + 1
=============================================================================
