------------------------------- MODULE Store -------------------------------
(***************************************************************************)
(* C19: PandasStore.  The store collects a run (Pipeline) and writes a     *)
(* frame: one row per input row, one uniquely and CF-safely named column   *)
(* per collected result that passes the include / exclude filters, the     *)
(* axis columns when write_axes, the data columns when write_data, and a   *)
(* roll-up column after compute_aggregate.                                 *)
(*                                                                         *)
(* Names are sequences of one-character strings so that the CF-safe rule   *)
(* can be stated: only letters, digits and underscores, never starting     *)
(* with a digit.                                                           *)
(***************************************************************************)
EXTENDS PipelineOps, AggregateOps

Letters == {"a","b","c","d","e","f","g","h","i","j","k","l","m","n","o","p","q","r","s","t","u","v","w","x","y","z",
            "A","B","C","D","E","F","G","H","I","J","K","L","M","N","O","P","Q","R","S","T","U","V","W","X","Y","Z"}
Digits  == {"0","1","2","3","4","5","6","7","8","9"}
SafeChars == Letters \cup Digits \cup {"_"}

Sanitize(cs) == [i \in 1..Len(cs) |-> IF cs[i] \in SafeChars THEN cs[i] ELSE "_"]
IsSafe(cs)   == /\ Len(cs) >= 1
                /\ \A i \in 1..Len(cs) : cs[i] \in SafeChars
                /\ cs[1] \notin Digits

\* what a CF-safe rendering of a raw name must look like: only safe characters, not starting with a
\* digit, and still recognisably that name -- the sanitised name itself, possibly behind a prefix
\* (needed when the sanitised name starts with a digit; harmless otherwise)
SafeOf(out, raw) ==
    LET s == Sanitize(raw) IN
    /\ IsSafe(out)
    /\ IsSuffix(s, out)

\* the raw column name of a collected result: <stream>.<module>.<test>
RawName(r) == r.schars \o <<".">> \o r.pchars \o <<".">> \o r.tchars

\* filters: an include list keeps, an exclude list drops, by stream id, test name or function
Listed(r, lst) == \E j \in 1..Len(lst) :
                      \/ lst[j].kind = "stream" /\ lst[j].v = r.stream
                      \/ lst[j].kind \in {"test", "func"} /\ lst[j].v = r.fn
Passes(r, o) == /\ (o.include.given => Listed(r, o.include.items))
                /\ (o.exclude.given => ~Listed(r, o.exclude.items))

\* the collected results of a run, as records (one per key of the list-form accumulator)
ResultsOf(tb, cfg, names) ==
    LET acc == CoverAcc(Yields(tb, cfg), NRows(tb), MASKED) IN
    { [stream |-> key[1], fn |-> key[2], flags |-> acc[key],
       schars |-> names[key[1]], pchars |-> names[ModName(key[2])], tchars |-> names[key[2]]] : key \in DOMAIN acc }

\* row i was evaluated by one of the results in RS
RowSeen(RS, i) == \E r \in RS : r.flags[i] # MASKED

\* observed frame: sequence of columns [name (chars), vals (one per row; MASKED = empty)]
\* o.axes = [t, z, y, x]: the column names the store was told to use for time / depth / latitude / longitude
AxisNamesOf(o) == { o.axes.t, o.axes.z, o.axes.y, o.axes.x }
ColSet(frame) == { frame[j] : j \in 1..Len(frame) }

Bijections(A, B) == { f \in [A -> B] : \A a1, a2 \in A : f[a1] = f[a2] => a1 = a2 }

\* names of the results that pass are pairwise distinct once made safe (no collision such as a.b / a_b)
NoCollision(R) == \A r1, r2 \in R : r1 # r2 => Sanitize(RawName(r1)) # Sanitize(RawName(r2))

FrameOK(frame, tb, cfg, names, o) ==
    LET All  == ResultsOf(tb, cfg, names)
        R    == { r \in All : Passes(r, o) }
        n    == NRows(tb)
        dataNames == IF o.write_data THEN { names[r.stream] : r \in R } ELSE {}
        cols == ColSet(frame)
        axis == { c \in cols : c.name \in AxisNamesOf(o) }
        data == { c \in cols : c.name \in dataNames /\ c.name \notin AxisNamesOf(o) }
        test == cols \ (axis \cup data)
    IN
    [ rows    |-> \A c \in cols : Len(c.vals) = n,
      distinct |-> \A a, b \in 1..Len(frame) : frame[a].name = frame[b].name => a = b,
      count   |-> Cardinality(test) = Cardinality(R),
      results |-> \E f \in Bijections(R, test) :
                      \A r \in R : /\ f[r].vals = r.flags
                                   /\ IsSafe(f[r].name)
                                   /\ NoCollision(R) => SafeOf(f[r].name, RawName(r)),
      \* axis columns: present whenever the run collected anything (the filters select results, not axes), and equal
      \* to the source on every row that some collected result evaluated -- whichever result comes first
      axes    |-> /\ (~o.write_axes => axis = {})
                  /\ (o.write_axes /\ All # {}) =>
                        /\ tb.hastime => \E c \in axis : c.name = o.axes.t
                        /\ (tb.z # <<>>) => \E c \in axis : c.name = o.axes.z
                        /\ (tb.lat # <<>>) => \E c \in axis : c.name = o.axes.y
                        /\ (tb.lon # <<>>) => \E c \in axis : c.name = o.axes.x
                  /\ \A c \in axis :
                        LET src == CASE c.name = o.axes.t -> TimeOf(tb) [] c.name = o.axes.z -> tb.z
                                     [] c.name = o.axes.y -> tb.lat [] OTHER -> tb.lon
                        IN  IF src = <<>> THEN \A i \in 1..Len(c.vals) : c.vals[i] = NA      \* no such input: empty
                            ELSE /\ Len(src) = Len(c.vals)
                                 /\ \A i \in 1..Len(src) : c.vals[i] \in {src[i], NA}
                                 /\ \A i \in 1..Len(src) : RowSeen(All, i) => c.vals[i] = src[i],
      \* one data column per stream that has a result that passes: the source values on every row that one of
      \* those results evaluated
      data    |-> /\ (~o.write_data => data = {})
                  /\ o.write_data => \A s \in { r.stream : r \in R } : \E c \in data :
                        /\ c.name = names[s]
                        /\ \A i \in 1..n : c.vals[i] \in {tb.data[s][i], NA}
                        /\ \A i \in 1..n : RowSeen({ r \in R : r.stream = s }, i) => c.vals[i] = tb.data[s][i] ]

\* a frame that satisfies the property, built from the model itself (used by MC_Store to show that
\* FrameOK is satisfiable on every instance, and as the reference of the naming rule)
SpecSafe(raw) == LET s == Sanitize(raw) IN IF Len(s) >= 1 /\ s[1] \notin Digits THEN s ELSE <<"v", "_">> \o s
SpecFrame(tb, cfg, names, o) ==
    LET R  == { r \in ResultsOf(tb, cfg, names) : Passes(r, o) }
        ax == IF o.write_axes /\ ResultsOf(tb, cfg, names) # {}
              THEN (IF tb.hastime THEN << [name |-> o.axes.t, vals |-> tb.t] >> ELSE <<>>)
                   \o (IF tb.z # <<>> THEN << [name |-> o.axes.z, vals |-> tb.z] >> ELSE <<>>)
                   \o (IF tb.lat # <<>> THEN << [name |-> o.axes.y, vals |-> tb.lat] >> ELSE <<>>)
                   \o (IF tb.lon # <<>> THEN << [name |-> o.axes.x, vals |-> tb.lon] >> ELSE <<>>)
              ELSE <<>>
        dt == IF o.write_data
              THEN SetToSeq({ [name |-> names[s], vals |-> tb.data[s]] : s \in { r.stream : r \in R } })
              ELSE <<>>
        ts == SetToSeq({ [name |-> SpecSafe(RawName(r)), vals |-> r.flags] : r \in R })
    IN  ax \o dt \o ts

\* the roll-up of all collected results (compute_aggregate)
RollupOf(tb, cfg, names) ==
    LET R == ResultsOf(tb, cfg, names)
        vs == SetToSeq({ r.flags : r \in R })
    IN  IF R = {} THEN <<>> ELSE Compare(vs)

-----------------------------------------------------------------------------
(* Life cycle of one store object.  Its state is the collected run plus     *)
(* whether compute_aggregate has been called; save is a pure observation:   *)
(*   New            aggd = FALSE                                            *)
(*   Aggregate      aggd' = TRUE   (calling it again changes nothing: the   *)
(*                  roll-up of the results plus their roll-up is the same   *)
(*                  roll-up, AggIdempotent)                                 *)
(*   Save(o)        state unchanged; the frame satisfies FrameOK, holds the *)
(*                  roll-up column iff aggd, and is the same frame whenever *)
(*                  the same options are used in the same state             *)
NoFilters(o) == ~o.include.given /\ ~o.exclude.given
\* The state of the object is the set of roll-up names given to compute_aggregate so far (aggs; {} before the first
\* call).  A roll-up is one more result: it never replaces or removes a test result, whatever its name (it may even
\* be the name of a test that ran), and a later roll-up equals an earlier one (AggIdempotent).
\* what the roll-up columns must be for a save without filters: one per name, each the roll-up of all test results
RollupWanted(tb, cfg, names, aggd) == IF aggd THEN RollupOf(tb, cfg, names) ELSE <<>>
\* a roll-up is a result whose test name is the roll-up's name (and that has no stream id): the filters keep / drop it
\* by that name (items of kind "rollupname"); its values are those of ALL test results, whatever is filtered
\* (a roll-up that was given the name of a test is also named by a filter item for that test)
RollListed(a, lst, names) == \E j \in 1..Len(lst) :
                                 \/ lst[j].kind = "rollupname" /\ lst[j].v = a
                                 \/ lst[j].kind = "test" /\ lst[j].v \in DOMAIN names /\ names[lst[j].v] = a
RollPasses(a, o, names) == /\ (o.include.given => RollListed(a, o.include.items, names))
                           /\ (o.exclude.given => ~RollListed(a, o.exclude.items, names))
RollupsOK(rolls, tb, cfg, names, aggs, o) ==
    LET want == RollupOf(tb, cfg, names)
        keep == { a \in aggs : RollPasses(a, o, names) }
    IN
    IF keep = {} THEN rolls = <<>>
    ELSE want # <<>> => /\ { rolls[j].name : j \in 1..Len(rolls) } = keep
                        /\ Len(rolls) = Cardinality(keep)
                        /\ \A j \in 1..Len(rolls) : rolls[j].vals = want
RollupOK(roll, tb, cfg, names, aggd) ==
    LET want == RollupWanted(tb, cfg, names, aggd) IN
    IF want = <<>> THEN (aggd \/ ~roll.found) ELSE (roll.found /\ roll.vals = want)
AggIdempotent(tb, cfg, names) ==
    LET R == ResultsOf(tb, cfg, names)
        vs == SetToSeq({ r.flags : r \in R })
    IN  R # {} => Compare(Append(vs, Compare(vs))) = Compare(vs)
=============================================================================
