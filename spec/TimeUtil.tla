------------------------------ MODULE TimeUtil ------------------------------
(* Growth beyond the listed properties: utils.check_timestamps.            *)
(* True iff the times are strictly increasing and, when a maximum interval *)
(* is given, no gap exceeds it.                                            *)
EXTENDS Integers, Sequences, Json, IOUtils, TLC, TLCExt
NA == -999999999
CheckTimestamps(t, maxgap) ==
    /\ \A i \in 1..(Len(t) - 1) : t[i] < t[i + 1]
    /\ maxgap # NA => \A i \in 1..(Len(t) - 1) : t[i + 1] - t[i] <= maxgap

TraceLog == ndJsonDeserialize(IOEnv.TRACE_FILE)
VARIABLE l
TraceInit == l = 1
Step == /\ l <= Len(TraceLog)
        /\ LET e == TraceLog[l] IN
           /\ IF e.exc = "" /\ e.out = CheckTimestamps(e.t, e.maxgap) THEN TRUE ELSE PrintT(<<"REJECT", e.id, "check_timestamps">>)
           /\ IF l = Len(TraceLog) THEN PrintT(<<"DONE", l>>) ELSE TRUE
        /\ l' = l + 1
=============================================================================
