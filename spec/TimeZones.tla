------------------------------ MODULE TimeZones ------------------------------
(* Growth beyond C15 (which speaks of naive and UTC-aware times only):      *)
(* utils.mapdates on times that carry a UTC offset.  A time with an offset  *)
(* denotes an instant; the naive datetime64 the tests work on is that       *)
(* instant in UTC:  utc = wall clock - offset.                              *)
(*   [wall (seconds, relative to a base), offset (seconds), out, carrier,   *)
(*    exc]                                                                  *)
(* Carriers built from python datetimes, pandas Timestamps and ISO strings  *)
(* follow the rule.  OBSERVATION (recorded, not a listed property): pandas  *)
(* Series / DatetimeIndex with a non-UTC zone keep the wall clock instead   *)
(* (tz_localize(None)); they are validated against KeepsWallClock so that   *)
(* a change of either behaviour shows.                                      *)
EXTENDS Integers, Sequences, Json, IOUtils, TLC, TLCExt
Instants(wall, offset)       == [i \in 1..Len(wall) |-> wall[i] - offset]
KeepsWallClock(wall, offset) == wall
PandasCarriers == {"series_tz", "dtindex_tz"}

TraceLog == ndJsonDeserialize(IOEnv.TRACE_FILE)
VARIABLE l
Clause(e, name, ok) == IF ok THEN TRUE ELSE PrintT(<<"REJECT", e.id, name>>)
TraceInit == l = 1
Step == /\ l <= Len(TraceLog)
        /\ LET e == TraceLog[l] IN
           /\ Clause(e, "tz_total", e.exc = "")
           /\ Clause(e, "tz_instant", (e.exc = "" /\ e.carrier \notin PandasCarriers) => e.out = Instants(e.wall, e.offset))
           /\ Clause(e, "tz_pandas_wallclock", (e.exc = "" /\ e.carrier \in PandasCarriers) => e.out = KeepsWallClock(e.wall, e.offset))
           /\ IF l = Len(TraceLog) THEN PrintT(<<"DONE", l>>) ELSE TRUE
        /\ l' = l + 1
=============================================================================
