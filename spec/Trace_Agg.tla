------------------------------ MODULE Trace_Agg ------------------------------
(* Trace validation of recorded calls of qartod_compare / aggregate /      *)
(* PandasStore.compute_aggregate.  One line = one call:                    *)
(*   [id, sid, vecs, rel, via, obs = [out, exc, masked]]                   *)
EXTENDS Aggregate, Json, IOUtils, TLCExt

TraceLog == ndJsonDeserialize(IOEnv.TRACE_FILE)
VARIABLES l, bout
tvars == <<l, bout, avecs, acur, arel>>

Clause(e, name, ok) == IF ok THEN TRUE ELSE PrintT(<<"REJECT", e.id, name>>)

TraceInit == AInit /\ l = 1 /\ bout = <<>>

Step ==
    /\ l <= Len(TraceLog)
    /\ LET e == TraceLog[l]
           isBase == e.rel.kind = "base"
           wf == WellFormed(e.vecs)
           relok == isBase \/ (avecs # <<>> /\ (e.rel.kind = "group" \/ ARelOK(e.rel, e.vecs)))
       IN
       /\ IF ~wf \/ ~relok
          THEN PrintT(<<"HARNESS", e.id, "ill-formed aggregate event">>)
          ELSE /\ Clause(e, "agg_total", e.obs.exc = "" /\ e.obs.masked = 0)
               /\ Clause(e, "agg_value", e.obs.exc = "" => e.obs.out = Compare(e.vecs))
               /\ Clause(e, "agg_worst", e.obs.exc = "" /\ Len(e.obs.out) = Len(e.vecs[1])
                                             => NeverBetter(e.vecs, e.obs.out))
               \* grouping: the intermediate aggregates were produced by the real code
               /\ Clause(e, "agg_group_mid", (e.rel.kind = "group" /\ GroupsOK(e.rel.groups, Len(avecs)))
                                             => e.vecs = Grouped(avecs, e.rel.groups))
               /\ Clause(e, "agg_rel", (~isBase /\ e.obs.exc = "") => e.obs.out = bout)
       /\ IF isBase /\ wf
          THEN AStart(e.vecs) /\ bout' = e.obs.out
          ELSE IF wf /\ relok /\ ARelOK(e.rel, e.vecs)
          THEN ADerive(e.rel, e.vecs) /\ UNCHANGED bout
          ELSE UNCHANGED <<avecs, acur, arel, bout>>
       /\ IF l = Len(TraceLog) THEN PrintT(<<"DONE", l>>) ELSE TRUE
    /\ l' = l + 1
=============================================================================
