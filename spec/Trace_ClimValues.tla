-------------------------- MODULE Trace_ClimValues --------------------------
(* Trace validation of ClimatologyConfig.values(t, z) (growth; see QcTests). *)
(*   [members, t, z (NA = not given), out (<<>> = (None, None)), exc]        *)
EXTENDS QcTests, Json, IOUtils, TLCExt
TraceLog == ndJsonDeserialize(IOEnv.TRACE_FILE)
VARIABLE l
Clause(e, name, ok) == IF ok THEN TRUE ELSE PrintT(<<"REJECT", e.id, name>>)
TraceInit == l = 1
Step ==
    /\ l <= Len(TraceLog)
    /\ LET e == TraceLog[l] IN
       /\ Clause(e, "cv_total", e.exc = "")
       /\ Clause(e, "cv_values", e.exc = "" => e.out = ClimValues(e.members, e.t, e.z))
       /\ Clause(e, "cv_stricter", \A k \in 1..Len(e.members) : LookupStricter(e.members[k], e.t, e.z))
       /\ IF l = Len(TraceLog) THEN PrintT(<<"DONE", l>>) ELSE TRUE
    /\ l' = l + 1
=============================================================================
