---------------------------- MODULE Trace_Config ----------------------------
(* Trace validation of Config(source): one event per load of one spelling. *)
(*   [cfg, layout, carrier, exc, calls, ncalls, rt = [exc, calls],         *)
(*    again = [done, exc, calls, ncalls]]                                  *)
(* rt: the configuration rebuilt from Call.config() of every call, loaded   *)
(* again.                                                                   *)
EXTENDS ConfigLoad, Json, IOUtils, TLCExt

TraceLog == ndJsonDeserialize(IOEnv.TRACE_FILE)
VARIABLE l
tvars == <<l, cfgv, last>>
Clause(e, name, ok) == IF ok THEN TRUE ELSE PrintT(<<"REJECT", e.id, name>>)
TraceInit == l = 1 /\ cfgv = <<>> /\ last = <<>>

AsSet(s) == { s[j] : j \in 1..Len(s) }
NormCalls(S) == { [c EXCEPT !.params = IF c.params = "null" THEN "empty" ELSE c.params] : c \in S }

Step ==
    /\ l <= Len(TraceLog)
    /\ LET e == TraceLog[l] IN
       /\ IF ~Expressible(e.cfg, e.layout, e.carrier)
          THEN PrintT(<<"HARNESS", e.id, "layout/carrier cannot express this configuration">>)
          ELSE /\ Clause(e, "c07_total", e.exc = "")
               /\ Clause(e, "c07_calls", e.exc = "" => AsSet(e.calls) = NormCalls(Calls(e.cfg, e.layout)))
               /\ Clause(e, "c07_count", e.exc = "" => e.ncalls = NCalls(e.cfg))
               \* Call identity: calls that differ in stream, function, parameters, window or region are different calls
               /\ Clause(e, "c07_distinct", e.exc = "" => e.ndistinct >= Cardinality(NormCalls(Calls(e.cfg, e.layout))))
               /\ Clause(e, "c07_roundtrip", e.exc = "" => (e.rt.exc = "" /\ AsSet(e.rt.calls) = AsSet(e.calls)))
               \* the very same source object loaded a second time (where it can be read twice) means the same
               /\ Clause(e, "c07_again", (e.exc = "" /\ e.again.done) =>
                                            (e.again.exc = "" /\ e.again.calls = e.calls /\ e.again.ncalls = e.ncalls))
       /\ cfgv' = e.cfg
       /\ last' = <<e.layout, e.carrier, Calls(e.cfg, e.layout)>>      \* ConfigLoad!Load bound to the logged spelling
       /\ IF l = Len(TraceLog) THEN PrintT(<<"DONE", l>>) ELSE TRUE
    /\ l' = l + 1
=============================================================================
