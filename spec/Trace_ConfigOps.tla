--------------------------- MODULE Trace_ConfigOps ---------------------------
(* Trace validation of Config / ContextConfig used as mutable containers.   *)
(*   new     [cfg, obs]                         Config(cfg)                 *)
(*   add     [cfg2, kind, obs]                  config.add(source)          *)
(*   ctxnew  [cfg, obs]  /  ctxadd [cfg2, obs]  ContextConfig(ctx).add(...) *)
(* obs = [calls, stream_ids, by_stream, has, contexts, agg]                 *)
EXTENDS ConfigOps, Json, IOUtils, TLCExt
TraceLog == ndJsonDeserialize(IOEnv.TRACE_FILE)
VARIABLES l, ownctx
Clause(e, name, ok) == IF ok THEN TRUE ELSE PrintT(<<"REJECT", e.id, name>>)
TraceInit == OInit /\ l = 1 /\ ownctx = <<>>

Added(e) ==
    LET all == CallSeq(e.cfg2, "contexts") IN
    IF e.kind = "call" THEN (IF Len(all) >= 1 THEN <<all[1]>> ELSE <<>>) ELSE all

Views(e, calls) ==
    LET o == e.obs IN
    /\ Clause(e, "ops_calls", o.calls = calls)
    /\ Clause(e, "ops_stream_ids", e.ev \in {"ctxnew", "ctxadd"} \/ o.stream_ids = StreamIds(calls))
    /\ Clause(e, "ops_by_stream", e.ev \in {"ctxnew", "ctxadd"} \/
                 \A j \in 1..Len(o.by_stream) : o.by_stream[j].calls = ByStream(calls, o.by_stream[j].sid))
    /\ Clause(e, "ops_has", e.ev \in {"ctxnew", "ctxadd"} \/
                 \A j \in 1..Len(o.has) : o.has[j].idx = HasIdx(calls, o.has[j].sid, o.has[j].module, o.has[j].test))
    \* Call defines __hash__ next to __eq__: every call of a configuration can be hashed
    /\ Clause(e, "ops_hashable", o.hashable)
    \* the same question asked with the function object instead of its dotted name
    /\ Clause(e, "ops_has_callable", e.ev \in {"ctxnew", "ctxadd"} \/
                 \A j \in 1..Len(o.has) : o.has[j].fidx = HasIdx(calls, o.has[j].sid, o.has[j].module, o.has[j].test))
    /\ Clause(e, "ops_contexts", e.ev \in {"ctxnew", "ctxadd"} \/
                 /\ Len(o.contexts) = Len(ContextKeys(calls))
                 /\ \A g \in 1..Len(o.contexts) :
                        /\ <<o.contexts[g].win, o.contexts[g].region>> = ContextKeys(calls)[g]
                        /\ o.contexts[g].calls = ContextGroups(calls)[g])
    /\ Clause(e, "ops_agg", e.ev \in {"ctxnew", "ctxadd"} \/ o.agg = AggregateCalls(calls))

Step ==
    /\ l <= Len(TraceLog)
    /\ LET e == TraceLog[l] IN
       /\ CASE e.ev = "new"    -> ONew(e.cfg) /\ UNCHANGED ownctx
            [] e.ev = "add"    -> OAdd(Added(e)) /\ UNCHANGED ownctx
            [] e.ev = "ctxnew" -> ONew(e.cfg) /\ ownctx' = <<e.cfg[1].win, RegionKey(e.cfg[1].region)>>
            [] e.ev = "ctxadd" -> OAddSameContext(Added(e), ownctx[1], ownctx[2]) /\ UNCHANGED ownctx
       /\ Clause(e, "ops_total", e.exc = "")
       /\ e.exc = "" => Views(e, cs')
       /\ IF l = Len(TraceLog) THEN PrintT(<<"DONE", l>>) ELSE TRUE
    /\ l' = l + 1
=============================================================================
