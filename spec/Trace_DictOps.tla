--------------------------- MODULE Trace_DictOps ---------------------------
(* Trace validation of utils.dict_update / utils.dict_depth:                *)
(*   [d, u, out, uafter, inplace, depth_d, depth_out, exc]                  *)
(* out: what dict_update(d, u) returned; uafter: the update afterwards (it  *)
(* must not be changed); inplace: the returned object is d itself whenever  *)
(* d is a mapping (callers rely on the in-place update).                    *)
EXTENDS DictOps, Json, IOUtils, TLCExt
TraceLog == ndJsonDeserialize(IOEnv.TRACE_FILE)
VARIABLE l
Clause(e, name, ok) == IF ok THEN TRUE ELSE PrintT(<<"REJECT", e.id, name>>)
TraceInit == l = 1
Step ==
    /\ l <= Len(TraceLog)
    /\ LET e == TraceLog[l] IN
       /\ Clause(e, "du_total", e.exc = "")
       /\ Clause(e, "du_merge", e.exc = "" => e.out = Merge(e.d, e.u))
       /\ Clause(e, "du_update_untouched", e.exc = "" => e.uafter = e.u)
       /\ Clause(e, "du_inplace", (e.exc = "" /\ IsNode(e.d)) => e.inplace)
       /\ Clause(e, "du_depth", e.exc = "" => (e.depth_d = Depth(e.d) /\ e.depth_out = Depth(Merge(e.d, e.u))))
       /\ IF l = Len(TraceLog) THEN PrintT(<<"DONE", l>>) ELSE TRUE
    /\ l' = l + 1
=============================================================================
