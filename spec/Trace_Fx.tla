------------------------------ MODULE Trace_Fx ------------------------------
(* Trace validation of real fx_parser.eval_fx / QcVariableConfig calls.    *)
(*   reset     the harness emptied fx_parser.exprStack (start of a session)*)
(*   eval      [toks, stats, tail (items the call appended to exprStack),  *)
(*              before, after (len(exprStack)), ok, val (<<n, d>>), exc,   *)
(*              resid_ok (the float is within 1e-9 of val)]                *)
(*   validate  [tokens (strings), accepted, exc]                           *)
(*   validate_cfg [tests (seq of seq of entries), accepted, exc]            *)
EXTENDS FxParser, Json, IOUtils, TLCExt

TraceLog == ndJsonDeserialize(IOEnv.TRACE_FILE)
VARIABLE l
tvars == <<l, stack, lastT, lastS, lastV, lastOk>>

Clause(e, name, ok) == IF ok THEN TRUE ELSE PrintT(<<"REJECT", e.id, name>>)
TraceInit == FInit /\ l = 1

EvalE(e) ==
    IF Parses(e.toks)
    THEN /\ ParseEval(e.toks, e.stats)                     \* the spec action, bound to the logged arguments
         /\ Clause(e, "fx_stack_before", e.before = Len(stack))
         /\ Clause(e, "fx_tail", e.tail = Postfix(e.toks) /\ e.after = Len(stack'))
         /\ Clause(e, "fx_value",
                   IF HasIdent(e.toks) THEN ~e.ok /\ e.exc # ""
                   ELSE /\ e.ok <=> IsDef(Value(e.toks, e.stats))
                        /\ e.ok => (e.resid_ok /\ REq(e.val, Value(e.toks, e.stats)))
                        /\ ~e.ok => e.exc = "ZeroDivisionError")
         \* the model of the implementation agrees with the implementation
         /\ Clause(e, "fx_model", e.ok = lastOk' /\ (e.ok => REq(e.val, lastV')))
    ELSE /\ ParseFail(e.toks, e.tail)                      \* left-over bound from the log
         /\ Clause(e, "fx_stack_before", e.before = Len(stack))
         /\ Clause(e, "fx_reject", ~e.ok /\ e.exc # "" /\ e.after = Len(stack'))

Step ==
    /\ l <= Len(TraceLog)
    /\ LET e == TraceLog[l] IN
       /\ CASE e.ev = "reset"    -> Reset /\ Clause(e, "fx_reset", e.after = 0)
            [] e.ev = "eval"     -> EvalE(e)
            [] e.ev = "create"   ->
                 LET C  == EffCells(e.grid, e.bbox)
                     st == IF C = {} THEN NoStats ELSE GridStats(e.grid, e.bbox)
                     Judged(t) == C # {} /\ WellFormed(t, st) /\ ~UsesUndefStat(t, st) /\ IsDef(Value(t, st))
                 IN  /\ Clause(e, "cc_total", (C # {} /\ \A j \in 1..Len(e.exprs) : Judged(e.exprs[j])) => e.exc = "")
                     /\ Clause(e, "cc_value", (C # {} /\ e.exc = "") =>
                             \A j \in 1..Len(e.items) :
                                 Judged(e.items[j].toks) =>
                                     e.items[j].resid_ok /\ REq(e.items[j].val, Value(e.items[j].toks, st)))
                     /\ UNCHANGED fvars
            [] e.ev = "validate" -> /\ Clause(e, "fx_validate", e.accepted <=> Accepts(e.tokens))
                                    /\ Clause(e, "fx_validate_exc", ~e.accepted => e.exc = "ValueError")
                                    /\ UNCHANGED fvars
            [] e.ev = "validate_cfg" -> /\ Clause(e, "fx_validate", e.accepted <=> AcceptsCfg(e.tests))
                                        /\ Clause(e, "fx_validate_exc", ~e.accepted => e.exc = "ValueError")
                                        /\ UNCHANGED fvars
       /\ IF l = Len(TraceLog) THEN PrintT(<<"DONE", l>>) ELSE TRUE
    /\ l' = l + 1
=============================================================================
