--------------------------- MODULE Trace_Pipeline ---------------------------
(***************************************************************************)
(* Trace validation of real runs of the stream front ends and of           *)
(* collect_results.  Events of one run (rid):                              *)
(*   load    [table, config, frontend, rel]    the abstract inputs         *)
(*   yield   one per ContextResult the front end yielded: stream, fn,      *)
(*           subset (row numbers), ok (a CallResult is present), flags,    *)
(*           the data / time / depth / position arrays it carries, and     *)
(*           for the probe test the arguments the test function received   *)
(*   endrun  [exc] the generator is exhausted (or raised)                  *)
(*   collect [order, exc, accL, accD] collect_results fed the yields in    *)
(*           the given order (a permutation or a prefix)                   *)
(* The spec's yields are matched to the logged ones per (stream, test) in  *)
(* order of appearance; the accumulators are the fold of Pipeline!Collect  *)
(* over the logged order.                                                  *)
(***************************************************************************)
EXTENDS Pipeline, Json, IOUtils, TLCExt

TraceLog == ndJsonDeserialize(IOEnv.TRACE_FILE)

VARIABLES l,
          matched,   \* indices of Yields(table, config) already matched to a logged yield
          bacc       \* the completed accumulators of the run this run is compared with (C18)
tvars == <<l, matched, bacc, table, config, ys, order, accL, accD, pc>>

Clause(e, name, ok) == IF ok THEN TRUE ELSE PrintT(<<"REJECT", e.id, name>>)

EmptyTable == [t |-> <<>>, hastime |-> TRUE, data |-> <<>>, z |-> <<>>, lat |-> <<>>, lon |-> <<>>]
TraceInit == /\ l = 1 /\ matched = {} /\ bacc = [L |-> <<>>, D |-> <<>>, tb |-> EmptyTable, cfg |-> <<>>]
             /\ table = EmptyTable /\ config = <<>> /\ ys = <<>> /\ order = <<>> /\ accL = <<>> /\ accD = <<>>
             /\ pc = "idle"

\* the logged accumulator list as a function key -> flags
AccFn(lst) == [key \in { <<lst[j].stream, lst[j].fn>> : j \in 1..Len(lst) } |->
                 LET j == CHOOSE j \in 1..Len(lst) : <<lst[j].stream, lst[j].fn>> = key IN lst[j].flags]
OneEach(lst) == \A a, b \in 1..Len(lst) : (lst[a].stream = lst[b].stream /\ lst[a].fn = lst[b].fn) => a = b

\* rows of a key covered by the collected yields
CoveredBy(key, ord) == UNION { ys[ord[j]].subset : j \in { m \in 1..Len(ord) : ys[ord[m]].ok /\ Key(ys[ord[m]]) = key } }

AxesOK(ent, ord) ==      \* collected data / time / depth / position equal the source on covered rows
    LET cov == CoveredBy(<<ent.stream, ent.fn>>, ord)
        Same(arr, src) == src = <<>> \/ (Len(arr) = Len(src) /\ \A i \in cov : arr[i] = src[i])
    IN  /\ ent.stream \in DOMAIN table.data            \* a result for a stream the data does not have is wrong as such
        /\ Same(ent.data, table.data[ent.stream])
        /\ Same(ent.t, TimeOf(table))
        /\ Same(ent.z, table.z) /\ Same(ent.lat, table.lat) /\ Same(ent.lon, table.lon)

Load(e) ==
    /\ table' = e.table /\ config' = e.config
    /\ ys' = <<>> /\ order' = <<>> /\ accL' = <<>> /\ accD' = <<>> /\ pc' = "run"
    /\ matched' = {}
    /\ IF e.rel.kind = "healthy_of"
       THEN /\ Clause(e, "harness_healthy", e.table = bacc.tb /\ e.config = HealthyOnly(bacc.tb, bacc.cfg))
            /\ UNCHANGED bacc
       ELSE bacc' = [L |-> <<>>, D |-> <<>>, tb |-> e.table, cfg |-> e.config]

Yield(e) ==
    LET exp  == Yields(table, config)
        cand == { k \in 1..Len(exp) : k \notin matched /\ exp[k].stream = e.stream /\ exp[k].fn = e.fn }
        S    == { e.subset[j] : j \in 1..Len(e.subset) }
        logged == [win |-> <<NA, NA>>, stream |-> e.stream, fn |-> e.fn, subset |-> S, ok |-> e.ok, flags |-> e.flags]
    IN
    /\ pc = "run"
    /\ IF cand = {}
       THEN /\ Clause(e, "c05_unexpected_yield", FALSE)
            /\ UNCHANGED matched
       ELSE LET k == CHOOSE k \in cand : \A m \in cand : k <= m
                x == exp[k]
            IN  /\ Clause(e, "c05_subset", S = x.subset)
                /\ Clause(e, "c05_ran",    e.ok = x.ok)
                /\ Clause(e, "c05_flags",  (e.ok /\ x.ok) => /\ Len(e.flags) = Len(x.adm)
                                                                /\ \A i \in 1..Len(x.adm) : e.flags[i] \in x.adm[i])
                /\ Clause(e, "c05_arrays", /\ e.data = Pick(table.data[e.stream], S)
                                           /\ e.t = Pick(TimeOf(table), S)
                                           /\ e.z = Pick(table.z, S)
                                           /\ e.lat = Pick(table.lat, S) /\ e.lon = Pick(table.lon, S))
                /\ Clause(e, "c05_probe",  e.fn \in {"probe", "probe2"} /\ e.ok =>
                                               /\ e.probe.x = Pick(table.data[e.stream], x.subset)
                                               /\ e.probe.t = Pick(TimeOf(table), x.subset)
                                               /\ e.probe.z = Pick(table.z, x.subset)
                                               /\ e.probe.lat = Pick(table.lat, x.subset)
                                               /\ e.probe.lon = Pick(table.lon, x.subset))
                /\ matched' = matched \cup {k}
    /\ ys' = Append(ys, logged)          \* later collects are judged against what was actually yielded
    /\ UNCHANGED <<table, config, order, accL, accD, pc, bacc>>

EndRunE(e) ==
    /\ pc = "run"
    /\ Clause(e, "c05_total", e.exc = "")
    /\ Clause(e, "c05_missing_yield", e.exc = "" => matched = 1..Len(Yields(table, config)))
    /\ pc' = "collect"
    /\ UNCHANGED <<table, config, ys, order, accL, accD, matched, bacc>>

CollectE(e) ==
    LET n   == NRows(table)
        \* QcConfig.run returns the collected dict directly: it is judged against the spec's own yields
        src == IF e.direct THEN Yields(table, config) ELSE ys
        ord == IF e.direct THEN [k \in 1..Len(src) |-> k] ELSE e.order
        eL  == FoldL(<<>>, src, ord, n)
        eD  == FoldD(<<>>, src, ord, n)
        full == Len(ord) = Len(src) /\ \A k \in 1..Len(src) : \E j \in 1..Len(ord) : ord[j] = k
        \* a direct result is compared with the spec's own flags: only where the rules fix every one of them
        det == ~e.direct \/ Determined(src)
    IN
    /\ Clause(e, "c06_total", e.exc = "")
    /\ Clause(e, "c06_one_per_key", e.exc = "" => OneEach(e.accL) /\ OneEach(e.accD))
    /\ Clause(e, "c06_list", (e.exc = "" /\ ~e.direct) => AccFn(e.accL) = eL)
    /\ Clause(e, "c06_dict", (e.exc = "" /\ det) => AccFn(e.accD) = eD)
    \* C05 for the single-stream wrapper, whose run and collection are one call: what it returns is what the direct calls give
    /\ Clause(e, "c05_direct", (e.exc = "" /\ e.direct /\ det) => AccFn(e.accD) = eD)
    /\ Clause(e, "c06_axes", (e.exc = "" /\ ~e.direct) => \A j \in 1..Len(e.accL) : AxesOK(e.accL[j], ord))
    \* C06 order independence / coverage: a complete collection equals the order-free statement
    /\ Clause(e, "c06_cover", (e.exc = "" /\ full /\ det /\ DisjointYields(src)) =>
                                  /\ e.direct \/ AccFn(e.accL) = CoverAcc(src, n, MASKED)
                                  /\ AccFn(e.accD) = CoverAcc(src, n, UNKNOWN))
    \* C18: the run without the entries that cannot run gives the same accumulators
    /\ Clause(e, "c18_same", (e.exc = "" /\ full /\ e.rel.kind = "healthy_of") =>
                                  (e.direct \/ AccFn(e.accL) = bacc.L) /\ AccFn(e.accD) = bacc.D)
    /\ Clause(e, "c18_spec", (e.exc = "" /\ full /\ DisjointYields(src) /\ Determined(Yields(table, HealthyOnly(table, config)))) =>
                                  AccFn(e.accD) = CoverAcc(Yields(table, HealthyOnly(table, config)), n, UNKNOWN))
    \* the mapping names exactly the streams that have a result (an entry that cannot run leaves nothing, not even an
    \* empty slot for its stream)
    /\ Clause(e, "c18_keys", (e.exc = "" /\ ~e.direct) => { e.dkeys[j] : j \in 1..Len(e.dkeys) } = { k[1] : k \in DOMAIN eD })
    /\ order' = ord /\ accL' = eL /\ accD' = eD /\ pc' = "done"
    /\ IF e.exc = "" /\ full /\ e.rel.kind = "base" /\ e.first
       THEN bacc' = [bacc EXCEPT !.L = AccFn(e.accL), !.D = AccFn(e.accD)]
       ELSE UNCHANGED bacc
    /\ UNCHANGED <<table, config, ys, matched>>

Step ==
    /\ l <= Len(TraceLog)
    /\ LET e == TraceLog[l] IN
       /\ CASE e.ev = "load"    -> Load(e)
            [] e.ev = "yield"   -> IF pc = "run" THEN Yield(e)
                                   ELSE PrintT(<<"HARNESS", e.id, "yield outside a run">>) /\ UNCHANGED <<table, config, ys, order, accL, accD, pc, matched, bacc>>
            [] e.ev = "endrun"  -> IF pc = "run" THEN EndRunE(e)
                                   ELSE PrintT(<<"HARNESS", e.id, "endrun outside a run">>) /\ UNCHANGED <<table, config, ys, order, accL, accD, pc, matched, bacc>>
            [] e.ev = "collect" -> IF pc \in {"collect", "done"} \/ e.direct THEN CollectE(e)
                                   ELSE PrintT(<<"HARNESS", e.id, "collect before endrun">>) /\ UNCHANGED <<table, config, ys, order, accL, accD, pc, matched, bacc>>
            \* one collection over the results of two runs whose streams have different numbers of rows: every key equals
            \* what its own run gives alone (accumulators are per key; the solo collections are judged above)
            [] e.ev = "joint"   -> /\ Clause(e, "c06_total", e.exc = "")
                                   /\ Clause(e, "c06_one_per_key", e.exc = "" => (e.same1 /\ e.same2))
                                   /\ UNCHANGED <<table, config, ys, order, accL, accD, pc, matched, bacc>>
       /\ IF l = Len(TraceLog) THEN PrintT(<<"DONE", l>>) ELSE TRUE
    /\ l' = l + 1
=============================================================================
