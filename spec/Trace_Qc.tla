------------------------------ MODULE Trace_Qc ------------------------------
(***************************************************************************)
(* Trace validation of sessions recorded from the real QC test functions.  *)
(* One ndjson line = one public call, logged at its return (also on the    *)
(* error path):                                                            *)
(*   [id, sid, call, rel, lenient, obs]                                    *)
(*   call : the abstract call record of QcTests                            *)
(*   rel  : how the call derives from the session's base call              *)
(*   obs  : [out (flags), exc (exception class or ""), masked (#entries    *)
(*           hidden behind a mask), shape_ok, alpha_ok, same (arguments    *)
(*           unchanged), again (an immediate identical call agreed)]       *)
(* The trace spec re-uses QcSession's Start / Derive actions, binds the    *)
(* logged call to them, and checks the logged observation against what the *)
(* rules allow.  Verdicts are total: every line is consumed and every      *)
(* failing clause of every line is printed, so one run reports all         *)
(* rejected events.                                                        *)
(***************************************************************************)
EXTENDS QcSession, Json, IOUtils, TLCExt

TraceLog == ndJsonDeserialize(IOEnv.TRACE_FILE)

VARIABLES l,       \* next line to consume
          bobs     \* the observation logged for the session's base call

tvars == <<l, bobs, base, cur, rel, exp>>

Singles(s) == [i \in 1..Len(s) |-> {s[i]}]

Clause(e, name, ok) == IF ok THEN TRUE ELSE PrintT(<<"REJECT", e.id, name>>)

TraceInit == Init /\ l = 1 /\ bobs = [out |-> <<>>, exc |-> ""]

Check(e, ex, isBase) ==
    LET o == e.obs
        \* judge = "rel": the call lies outside the quantifier domain of the rule properties (e.g. sub-second
        \* time steps) and is only compared with the session's base call (C15: another carrier of the same series)
        relOnly == e.judge = "rel"
    IN
    \* C01: total on admissible input, one visible valid flag per element, pure, repeatable
    /\ Clause(e, "c01_total",  relOnly \/ (ex.ok => o.exc = ""))
    /\ Clause(e, "c01_shape",  o.exc = "" => (o.shape_ok /\ o.alpha_ok /\ o.masked = 0
                                               /\ Len(o.out) = N(e.call)))
    /\ Clause(e, "c01_pure",   o.same)
    /\ Clause(e, "c01_again",  o.again)
    \* the rule of the test (C03, C08..C14)
    /\ Clause(e, "rule",       relOnly \/ Conforms(ex, o.out, o.exc))
    \* C02 on the logged flags, independent of the rule
    /\ Clause(e, "c02",        relOnly \/ ((ex.ok /\ o.exc = "") => C02Holds(e.call, o.out)))
    \* the relation to the base call (C01 recall, C13 mirror, C16, C17)
    /\ Clause(e, "rel",
              (~isBase /\ o.exc = "" /\ bobs.exc = ""
                 /\ (relOnly \/ (ex.ok /\ Expected(base, e.lenient).ok))
                 /\ Len(o.out) = N(e.call) /\ Len(bobs.out) = N(base))
              => RelHolds(e.rel, base, e.call, Singles(bobs.out), Singles(o.out), e.lenient))

Step ==
    /\ l <= Len(TraceLog)
    /\ LET e  == TraceLog[l]
           ex == Expected(e.call, e.lenient)
           isBase == e.rel.kind = "base"
           wellFormed == isBase \/ (base.fn # "none" /\ RelOK(e.rel, base, e.call))
       IN
       /\ IF wellFormed
          THEN Check(e, ex, isBase)
          ELSE PrintT(<<"HARNESS", e.id, "derived call is not the claimed transformation">>)
       \* the properties of the time-based tests quantify over strictly increasing time axes: a generated call that
       \* breaks this (rows without a time aside) is a fault of the generator, not a verdict about the code
       /\ IF e.call.fn \in {"roc", "flat", "att", "speed"} /\ e.call.fn # "none"
             /\ \E i \in 1..(Len(e.call.t) - 1) : e.call.t[i] # NA /\ e.call.t[i + 1] # NA /\ e.call.t[i] >= e.call.t[i + 1]
          THEN PrintT(<<"HARNESS", e.id, "time axis of a time-based test is not strictly increasing">>)
          ELSE TRUE
       /\ IF isBase
          THEN /\ StartL(e.call, e.lenient)
               /\ bobs' = [out |-> e.obs.out, exc |-> e.obs.exc]
          ELSE IF wellFormed
          THEN /\ DeriveL(e.rel, e.call, e.lenient)
               /\ UNCHANGED bobs
          ELSE UNCHANGED <<base, cur, rel, exp, bobs>>
       /\ IF l = Len(TraceLog) THEN PrintT(<<"DONE", l>>) ELSE TRUE
    /\ l' = l + 1

TraceSpec == TraceInit /\ [][Step]_tvars
=============================================================================
