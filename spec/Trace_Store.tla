----------------------------- MODULE Trace_Store -----------------------------
(* Trace validation of PandasStore.save / compute_aggregate / cf_safe_name. *)
(*   save    [table, config, names, opts, frame, exc, rollups, first]       *)
(*           rollups: the roll-up columns found in the frame [name, vals]   *)
(*   agg     [name, exc]       compute_aggregate(name) on the same object   *)
(* Events of one store object follow each other; "first" marks a new one.   *)
(*   cfsafe  [raw (chars), out (chars), exc]                                *)
EXTENDS Store, Json, IOUtils, TLCExt

TraceLog == ndJsonDeserialize(IOEnv.TRACE_FILE)
VARIABLES l, aggd, seen      \* aggd: the roll-up names given to compute_aggregate on this store; seen: its earlier saves
Clause(e, name, ok) == IF ok THEN TRUE ELSE PrintT(<<"REJECT", e.id, name>>)
TraceInit == l = 1 /\ aggd = {} /\ seen = {}

SaveE(e, ag, sn) ==
    LET ok == FrameOK(e.frame, e.table, e.config, e.names, e.opts) IN
    /\ Clause(e, "c19_total", e.exc = "")
    /\ Clause(e, "c19_rows", e.exc = "" => ok.rows)
    /\ Clause(e, "c19_distinct", e.exc = "" => ok.distinct)
    /\ Clause(e, "c19_count", e.exc = "" => ok.count)
    /\ Clause(e, "c19_results", e.exc = "" => ok.results)
    /\ Clause(e, "c19_axes", e.exc = "" => ok.axes)
    /\ Clause(e, "c19_data", e.exc = "" => ok.data)
    /\ Clause(e, "c19_rollup", e.exc = "" => RollupsOK(e.rollups, e.table, e.config, e.names, ag, e.opts))
    \* the same options on the same store in the same state give the same frame (save is a pure observation)
    /\ Clause(e, "c19_again", e.exc = "" => \A s \in sn : (s.opts = e.opts /\ s.aggd = ag) =>
                                                          (s.frame = e.frame /\ s.rollups = e.rollups))

Step ==
    /\ l <= Len(TraceLog)
    /\ LET e == TraceLog[l] IN
       /\ CASE e.ev = "save"   -> LET ag == IF e.first THEN {} ELSE aggd
                                       sn == IF e.first THEN {} ELSE seen IN
                                   /\ SaveE(e, ag, sn)
                                   /\ aggd' = ag
                                   /\ seen' = IF e.exc = "" THEN sn \cup {[opts |-> e.opts, aggd |-> ag, frame |-> e.frame,
                                                                             rollups |-> e.rollups]} ELSE sn
            [] e.ev = "agg"    -> /\ Clause(e, "c19_total", e.exc = "")
                                  /\ aggd' = (IF e.first THEN {} ELSE aggd) \cup (IF e.exc = "" THEN {e.name} ELSE {})
                                  /\ seen' = IF e.first THEN {} ELSE seen
            [] e.ev = "cfsafe" -> /\ Clause(e, "c19_cfsafe", e.exc = "" /\ SafeOf(e.out, e.raw))
                                  /\ UNCHANGED <<aggd, seen>>
       /\ IF l = Len(TraceLog) THEN PrintT(<<"DONE", l>>) ELSE TRUE
    /\ l' = l + 1
=============================================================================
