----------------------------- MODULE Trace_Store -----------------------------
(* Trace validation of PandasStore.save / compute_aggregate / cf_safe_name. *)
(*   save    [table, config, names, opts, frame, exc, rollup]               *)
(*   cfsafe  [raw (chars), out (chars), exc]                                *)
EXTENDS Store, Json, IOUtils, TLCExt

TraceLog == ndJsonDeserialize(IOEnv.TRACE_FILE)
VARIABLE l
Clause(e, name, ok) == IF ok THEN TRUE ELSE PrintT(<<"REJECT", e.id, name>>)
TraceInit == l = 1

SaveE(e) ==
    LET ok == FrameOK(e.frame, e.table, e.config, e.names, e.opts) IN
    /\ Clause(e, "c19_total", e.exc = "")
    /\ Clause(e, "c19_rows", e.exc = "" => ok.rows)
    /\ Clause(e, "c19_distinct", e.exc = "" => ok.distinct)
    /\ Clause(e, "c19_count", e.exc = "" => ok.count)
    /\ Clause(e, "c19_results", e.exc = "" => ok.results)
    /\ Clause(e, "c19_axes", e.exc = "" => ok.axes)
    /\ Clause(e, "c19_data", e.exc = "" => ok.data)
    /\ Clause(e, "c19_rollup", (e.exc = "" /\ e.rollup.asked) =>
                 LET want == RollupOf(e.table, e.config, e.names) IN
                 want # <<>> => (e.rollup.found /\ e.rollup.vals = want))

Step ==
    /\ l <= Len(TraceLog)
    /\ LET e == TraceLog[l] IN
       /\ CASE e.ev = "save"   -> SaveE(e)
            [] e.ev = "cfsafe" -> /\ Clause(e, "c19_cfsafe", e.exc = "" /\ SafeOf(e.out, e.raw))
       /\ IF l = Len(TraceLog) THEN PrintT(<<"DONE", l>>) ELSE TRUE
    /\ l' = l + 1
=============================================================================
