----------------------------- MODULE Trace_Store -----------------------------
(* Trace validation of PandasStore.save / compute_aggregate / cf_safe_name. *)
(*   save    [table, config, names, opts, frame, exc, rollup, first]        *)
(*   agg     [exc]             compute_aggregate on the same store object   *)
(* Events of one store object follow each other; "first" marks a new one.   *)
(*   cfsafe  [raw (chars), out (chars), exc]                                *)
EXTENDS Store, Json, IOUtils, TLCExt

TraceLog == ndJsonDeserialize(IOEnv.TRACE_FILE)
VARIABLES l, aggd, seen      \* aggd: compute_aggregate was called on this store; seen: its earlier saves
Clause(e, name, ok) == IF ok THEN TRUE ELSE PrintT(<<"REJECT", e.id, name>>)
TraceInit == l = 1 /\ aggd = FALSE /\ seen = {}

SaveE(e, ag, sn) ==
    LET ok == FrameOK(e.frame, e.table, e.config, e.names, e.opts) IN
    /\ Clause(e, "c19_total", e.exc = "")
    /\ Clause(e, "c19_rows", e.exc = "" => ok.rows)
    /\ Clause(e, "c19_distinct", e.exc = "" => ok.distinct)
    /\ Clause(e, "c19_count", e.exc = "" => ok.count)
    /\ Clause(e, "c19_results", e.exc = "" => ok.results)
    /\ Clause(e, "c19_axes", e.exc = "" => ok.axes)
    /\ Clause(e, "c19_data", e.exc = "" => ok.data)
    /\ Clause(e, "c19_rollup", (e.exc = "" /\ NoFilters(e.opts)) =>
                 RollupOK(e.rollup, e.table, e.config, e.names, ag))
    \* the same options on the same store in the same state give the same frame (save is a pure observation)
    /\ Clause(e, "c19_again", e.exc = "" => \A s \in sn : (s.opts = e.opts /\ s.aggd = ag) =>
                                                          (s.frame = e.frame /\ s.rollup = e.rollup))

Step ==
    /\ l <= Len(TraceLog)
    /\ LET e == TraceLog[l] IN
       /\ CASE e.ev = "save"   -> LET ag == IF e.first THEN FALSE ELSE aggd
                                       sn == IF e.first THEN {} ELSE seen IN
                                   /\ SaveE(e, ag, sn)
                                   /\ aggd' = ag
                                   /\ seen' = IF e.exc = "" THEN sn \cup {[opts |-> e.opts, aggd |-> ag, frame |-> e.frame,
                                                                             rollup |-> e.rollup]} ELSE sn
            [] e.ev = "agg"    -> /\ Clause(e, "c19_total", e.exc = "")
                                  /\ aggd' = ((IF e.first THEN FALSE ELSE aggd) \/ (e.exc = ""))
                                  /\ seen' = IF e.first THEN {} ELSE seen
            [] e.ev = "cfsafe" -> /\ Clause(e, "c19_cfsafe", e.exc = "" /\ SafeOf(e.out, e.raw))
                                  /\ UNCHANGED <<aggd, seen>>
       /\ IF l = Len(TraceLog) THEN PrintT(<<"DONE", l>>) ELSE TRUE
    /\ l' = l + 1
=============================================================================
